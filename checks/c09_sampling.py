"""C09 — sampling contract: which states are recorded, when, and in what shape.

E1: all non-decreasing request lists (with duplicates) up to a length bound over an exactly representable
time lattice x t_max x policies x engines x space types; E2: all {iterate, sample} histories up to depth 6
under each policy.  Oracle: mc/ref/sampler.py evaluated on the implementation's own step sequence
(per-iteration run of the same script and seed).
"""
import functools
import itertools
import json

from mc import core, pool, models, eng
from mc.ref import sampler

core.setup_paths()

DT = 0.25
LATTICE = [k / 8.0 for k in range(11)]          # 0, 1/8, ..., 1.25
TMAX = ["default", 0.0, 0.3, 0.5, 0.625, 2.0]
INTERVALS = [0.125, 0.25, 0.375, 0.5, 0.7]
MAX_ITER = 4000


def spec_for(gtype, variant=None):
    if variant == "extinct":
        # irreversible A -> B without diffusion: a stochastic run ends because nothing can happen any more
        sp = spec_for(gtype)
        sp["species"] = [{"label": "A", "D": 0.0}, {"label": "B", "D": 0.0}]
        sp["reactions"] = [{"eq": [[["A", 1]], [["B", 1]]], "kf": 4.0, "kr": 0.0}]
        sp["state"] = [2.0, 1.0, 0.0, 0.0]
        return sp
    base = {"species": [{"label": "A", "D": 0.5}, {"label": "B", "D": 0.25}],
            "reactions": [{"eq": [[["A", 1]], [["B", 1]]], "kf": 0.8, "kr": 0.1}], "envs": [""],
            "state": [6.0, 3.0, 2.0, 5.0]}
    if gtype == "grid":
        base["space"] = {"type": "grid", "w": 2, "h": 1, "d": 1, "vol": 1.0}
    else:
        base["space"] = {"type": "graph", "nodes": [{"vol": 1.0, "env": 0}, {"vol": 2.0, "env": 0}],
                         "edges": [[0, 1, 1.5, 0.75]]}
    return base


def mk_script(case, policy=None):
    sc = _mk_script_dict(case, policy)
    f = case.get("scale")
    if case.get("slow"):
        f = 1000.0
    if f:
        for r in sc["system"]["reactions"]:
            r["kf"], r["kr"] = r["kf"] / f, r["kr"] / f
        for sp_ in sc["system"]["species"]:
            sp_["D"] = sp_["D"] / f
    return models.build_script(sc)


def _mk_script_dict(case, policy=None):
    sc = {"system": spec_for(case["gtype"], case.get("variant")), "t_sample": case["t_sample"], "time_step": case.get("dt", DT),
          "policy": policy or case["policy"], "seed": case.get("seed", 0), "isp": "none"}
    if case.get("t_max", "default") != "default":
        sc["t_max"] = case["t_max"]
    if "interval" in case:
        sc["interval"] = case["interval"]
    return sc


def drive(engine, script, ops=None):
    """setup; then either iterate() to completion, or the given op string over I (iterate) / P (sample).
    Returns (returns of the driver calls, observations after each op, trajectory)."""
    engine.setup(script)
    rets, obs = [], []
    n = script.system.state_size()
    if ops is None:
        k = 0
        while k < MAX_ITER:
            k += 1
            r = engine.iterate()
            rets.append(bool(r))
            if not r:
                break
    else:
        obs.append((eng.raw_time(engine), eng.raw_state(engine, n)))
        for op in ops:
            if op == "I":
                rets.append(bool(engine.iterate()))
            else:
                engine.sample()
                rets.append(None)
            obs.append((eng.raw_time(engine), eng.raw_state(engine, n)))
    complete = engine.is_complete()
    out = engine.get_output()
    engine.finalize()
    return rets, obs, out, complete


@functools.lru_cache(maxsize=4096)
def _baseline(key):
    case = json.loads(key)
    script = mk_script(case, policy="on_iteration")
    rets, obs, out, complete = drive(eng.make_engine(case["engine"]), script)
    T, X = models.traj_arrays(out)
    return T, X, len(rets), complete


def baseline(case):
    k = {q: case[q] for q in ("engine", "gtype", "t_sample", "t_max", "seed", "dt", "interval", "variant", "slow", "scale") if q in case}
    # the step sequence does not depend on the request list except through the default t_max
    if k.get("t_max", "default") != "default":
        k["t_sample"] = [0]
    else:
        ts = k["t_sample"]
        if isinstance(ts, dict):
            k["t_sample"] = {"values": ts["values"][-1:], "unit": ts["unit"]}
        else:
            k["t_sample"] = [ts[-1]] if ts else []
    k.pop("interval", None)
    return _baseline(json.dumps(k, sort_keys=True))


def as_seconds(v):
    """numeric value in seconds of a request given as number or '<v> <unit>' string (ms, min, h, s)."""
    if isinstance(v, str):
        num, unit = v.split()
        return float(num) * {"s": 1.0, "ms": 1e-3, "min": 60.0, "h": 3600.0}[unit]
    return float(v)


def req_seconds(ts):
    if isinstance(ts, dict):
        f = {"s": 1.0, "ms": 1e-3, "min": 60.0, "h": 3600.0}[ts["unit"]]
        return [float(v) * f for v in ts["values"]]
    return [as_seconds(v) for v in ts]


def map_records(T, X, t, d):
    idx = []
    for j in range(len(t)):
        k = None
        for q in range(len(T)):
            if T[q] == t[j]:
                k = q
                break
        if k is None or X[k] != d[j]:
            return None, j
        idx.append(k)
    return idx, None


def check_case(case):
    out = []
    tag = "%s:%s" % (case["sub"], case["policy"])
    try:
        T, X, n_iter_base, comp_base = baseline(case)
    except Exception as e:
        return [("C09:baseline:unexpected-exception", "%s: %s" % (type(e).__name__, e))]
    nsp, ncell = 2, 2
    fixed = case["engine"] != "gillespie"
    # records made by the per-iteration policy are one per step: strictly increasing times, as many as steps + 1
    if any(not b > a for a, b in zip(T, T[1:])):
        out.append(("C09:baseline:%s:per-iteration-times-not-strictly-increasing" % case["engine"], "times %r" % (T[-6:],)))
        return out
    if "ops" not in case and len(T) - 1 > n_iter_base:
        out.append(("C09:baseline:%s:more-records-than-iterations" % case["engine"], "%d records for %d iterate() calls" % (len(T), n_iter_base)))
        return out
    exact = bool(case.get("exact", True))
    dt = as_seconds(case.get("dt", DT))
    reqs = req_seconds(case["t_sample"])
    tmax = case.get("t_max", "default")
    tmax_v = (reqs[-1] if reqs else None) if tmax == "default" else as_seconds(tmax)
    # ---- fixed-step schedule: T_k = k*dt, K = first step beyond t_max, then completion
    if fixed and "ops" not in case:
        for k, tk in enumerate(T):
            if abs(tk - k * dt) > 1e-9 * max(k * dt, dt):
                out.append(("C09:schedule:step-time", "step %d at t=%.17g, expected %d*dt=%.17g" % (k, tk, k, k * dt)))
                break
        if tmax_v is not None and tmax_v >= 0:
            K = len(T) - 1
            beyond = [k for k in range(len(T)) if T[k] > tmax_v * (1 + 1e-9) + 1e-300]
            notbeyond_last = K >= 1 and T[K - 1] > tmax_v * (1 + (0 if exact else 1e-9)) + (0 if exact else 1e-12)
            if not comp_base:
                out.append(("C09:schedule:not-complete", "run not complete after %d iterations (t_max %.6g)" % (n_iter_base, tmax_v)))
            elif not (T[K] > tmax_v * (1 - (0 if exact else 1e-9))) or notbeyond_last:
                out.append(("C09:schedule:last-step", "steps %r for t_max %.6g: the run must end at the first step beyond t_max" % (T, tmax_v)))
            if n_iter_base != K:
                out.append(("C09:schedule:iterations", "%d iterate() calls until completion, %d steps recorded" % (n_iter_base, K)))
    # ---- the run under test
    try:
        script = mk_script(case)
        rets, obs, traj, complete = drive(eng.make_engine(case["engine"]), script, case.get("ops"))
        t, d = models.traj_arrays(traj)
    except Exception as e:
        return out + [("C09:%s:unexpected-exception" % tag, "%s: %s" % (type(e).__name__, e))]
    nvals = len(traj.data.value)
    if nvals != len(t) * nsp * ncell:
        out.append(("C09:%s:shape" % tag, "%d data values for %d samples x %d species x %d cells" % (nvals, len(t), nsp, ncell)))
        return out
    if "ops" not in case:
        if len(rets) != n_iter_base:
            out.append(("C09:%s:iterations-differ-from-per-iteration-run" % tag, "%d vs %d" % (len(rets), n_iter_base)))
        if rets and (any(not r for r in rets[:-1]) or rets[-1]):
            out.append(("C09:%s:driver-return" % tag, "iterate() returns %r" % (rets,)))
        if not complete:
            out.append(("C09:%s:not-complete" % tag, "is_complete() is False after the loop ended"))
    idx, badj = map_records(T, X, t, d)
    if idx is None:
        out.append(("C09:%s:record-is-not-a-step-state" % tag,
                    "record %d (t=%.17g, x=%r) is not the (time, state) of any step of the run; steps at %r" % (badj, t[badj], d[badj], T)))
        return out
    if "ops" not in case:
        required, allowed = sampler.contract(T, reqs, case["policy"], interval=case.get("interval"), t_max=tmax_v, exact=exact)
        for cls, msg in sampler.check_records(T, idx, required, allowed):
            out.append(("C09:%s:%s" % (tag, cls), msg + " | requests %r t_max %r" % (reqs, tmax_v)))
        if idx and idx[0] == 0 and d[0] != spec_for(case["gtype"], case.get("variant"))["state"]:
            out.append(("C09:%s:t0-record" % tag, "record at t=0 is %r, initial state %r" % (d[0], spec_for(case["gtype"], case.get("variant"))["state"])))
    else:
        # explicit sample() calls mixed in
        ops = case["ops"]
        step = 0
        psteps = []
        nI = 0
        for q, op in enumerate(ops):
            if op == "I":
                nI += 1
            # engine position after this op, located on the baseline by time
            tt = obs[q + 1][0]
            ks = [k for k in range(len(T)) if T[k] == tt]
            if not ks or X[ks[0]] != obs[q + 1][1]:
                out.append(("C09:%s:engine-state-off-baseline" % tag, "after ops %s the engine is at t=%.17g x=%r" % (ops[:q + 1], tt, obs[q + 1][1])))
                return out
            if op == "P":
                psteps.append(ks[0])
        reached = max([k for k in range(len(T)) if T[k] == obs[-1][0]] or [0])
        Tr = T[:reached + 1]
        required, allowed = sampler.contract(Tr, reqs, case["policy"], interval=case.get("interval"), t_max=tmax_v, exact=exact)
        for a, b in zip(t, t[1:]):
            if b < a:
                out.append(("C09:%s:times-decrease" % tag, "sample times %r" % (t,)))
                break
        s = set(idx)
        for c in required:
            if not (s & c):
                out.append(("C09:%s:required-record-missing" % tag, "ops %s: no record at step(s) %r; recorded %r" % (ops, sorted(c), idx)))
                break
        for k in set(psteps):
            if k not in s:
                out.append(("C09:%s:explicit-sample-not-recorded" % tag, "ops %s: sample() called at step %d but no record of it; recorded %r" % (ops, k, idx)))
                break
        extra = [k for k in idx if k not in allowed and k not in psteps]
        if extra:
            out.append(("C09:%s:unrequested-record" % tag, "ops %s: record(s) at step(s) %r neither requested by the policy nor by sample(); recorded %r" % (ops, extra, idx)))
        if case["policy"] == "no_sampling" and len(idx) > len(psteps):
            out.append(("C09:%s:more-records-than-calls" % tag, "ops %s: %d records for %d sample() calls" % (ops, len(idx), len(psteps))))
    return out


# ---- enumeration --------------------------------------------------------------------------------

def _lists(maxlen, lattice, minlen=0):
    out = []
    for n in range(minlen, maxlen + 1):
        for c in itertools.combinations_with_replacement(lattice, n):
            out.append(list(c))
    return out


def gen_cases(tier, seed0):
    engines = ["euler", "tauleap", "gillespie"]
    gtypes = ["grid", "graph"]
    seeds = [1000 * seed0, 1000 * seed0 + 1] if tier == "quick" else list(range(1000 * seed0, 1000 * seed0 + 4))
    lists = _lists(3 if tier == "quick" else 4, LATTICE, 0)

    def sd(engine, k):
        return seeds[k % len(seeds)] if engine != "euler" else seeds[0]
    k = 0
    for e in engines:
        for g in gtypes:
            for lst in lists:
                for tm in TMAX:
                    if tm == "default" and not lst:
                        continue
                    k += 1
                    yield {"sub": "lattice", "policy": "on_t_sample", "engine": e, "gtype": g, "t_sample": lst,
                           "t_max": tm, "seed": sd(e, k), "exact": True}
            for iv in INTERVALS:
                for tm in TMAX[1:]:
                    k += 1
                    yield {"sub": "interval", "policy": "on_interval", "engine": e, "gtype": g, "t_sample": [0],
                           "t_max": tm, "interval": iv, "seed": sd(e, k), "exact": True}
            for pol in ("on_iteration", "no_sampling"):
                for tm in TMAX[1:]:
                    k += 1
                    yield {"sub": "simple", "policy": pol, "engine": e, "gtype": g, "t_sample": [0, 0.5],
                           "t_max": tm, "seed": sd(e, k), "exact": True}
    # stochastic runs that end by extinction (total propensity 0) before t_max, under every policy
    for e in ("gillespie", "tauleap"):
        for g in gtypes:
            for pol, extra in (("on_iteration", {}), ("on_t_sample", {}), ("on_interval", {"interval": 0.125}), ("no_sampling", {})):
                for s_ in seeds:
                    k += 1
                    c = {"sub": "extinct", "policy": pol, "engine": e, "gtype": g, "t_sample": [0, 0.125, 0.5, 3.0], "t_max": 4.0,
                         "seed": s_, "exact": True, "variant": "extinct"}
                    c.update(extra)
                    yield c
    # long intervals: interval = n steps for every n up to 100 (dt = 1): the record must sit on the step that lands on n, 2n, 3n
    for e in ("euler", "tauleap"):
        for g in gtypes:
            for n in range(1, 101):
                if tier == "quick" and e == "tauleap" and n % 2:
                    continue
                k += 1
                yield {"sub": "interval-long", "policy": "on_interval", "engine": e, "gtype": g, "t_sample": [0], "t_max": 3.0 * n + 0.5,
                       "interval": float(n), "dt": 1.0, "seed": sd(e, k), "exact": True, "slow": True}
    # the same contract at other time scales (dt = 2^-42, 2^22): thresholds must not be absolute
    for e in ("euler", "tauleap"):
        for scale in (2.0 ** -42, 2.0 ** 22):
            for lst in _lists(2, [0.0, 0.125, 0.25, 0.5, 0.625], 1):
                for tm in ("default", 0.5, 0.625):
                    k += 1
                    yield {"sub": "scaled", "policy": "on_t_sample", "engine": e, "gtype": "grid", "t_sample": [v * scale for v in lst],
                           "t_max": tm if tm == "default" else tm * scale, "dt": DT * scale, "seed": sd(e, k), "exact": True, "scale": scale}
    # time quantities given in other units (explicit quantities; script units stay default)
    for e in ("euler", "gillespie"):
        for unit, f in (("ms", 1000.0), ("min", 1 / 60.0), ("h", 1 / 3600.0)):
            for lst in _lists(2, [0.0, 0.125, 0.25, 0.5, 0.625], 1):
                for tm in ("default", 0.5, 0.625):
                    k += 1
                    yield {"sub": "units-" + unit, "policy": "on_t_sample", "engine": e, "gtype": "grid",
                           "t_sample": {"values": [v * f for v in lst], "unit": unit},
                           "t_max": tm if tm == "default" else "%r %s" % (tm * f, unit),
                           "dt": "%r %s" % (DT * f, unit), "seed": sd(e, k), "exact": False}
    # non-dyadic step: near-tie rule
    for e in ("euler", "tauleap"):
        for lst in _lists(2, [j * 0.05 for j in range(11)], 1):
            for tm in ("default", 0.3, 0.45):
                k += 1
                yield {"sub": "nondyadic", "policy": "on_t_sample", "engine": e, "gtype": "grid", "t_sample": lst,
                       "t_max": tm, "dt": 0.1, "seed": sd(e, k), "exact": False}
    # explicit sample() calls: all {I,P} histories up to depth 6 (quick: 5)
    depth = 5 if tier == "quick" else 6
    for e in engines:
        for pol, extra in (("no_sampling", {}), ("on_t_sample", {}), ("on_iteration", {}), ("on_interval", {"interval": 0.375})):
            for n in range(1, depth + 1):
                for ops in itertools.product("IP", repeat=n):
                    k += 1
                    c = {"sub": "explicit", "policy": pol, "engine": e, "gtype": "grid", "t_sample": [0.125, 0.5],
                         "t_max": 0.6, "seed": sd(e, k), "exact": True, "ops": "".join(ops)}
                    c.update(extra)
                    yield c


_CASES = None


def _work(job):
    lo, hi = job
    acc = core.Acc()
    for case in _CASES[lo:hi]:
        res = check_case(case)
        nt = 1 if (len(req_seconds(case["t_sample"])) >= 1 or "ops" in case) else 0
        acc.add(states=1, transitions=1 + len(case.get("ops", "")), traces=1, evaluations=1, nontrivial=nt)
        acc.count("cases:" + case["sub"])
        for key, what in res:
            acc.violation(key, what, case)
    if lo == 0:
        acc.sample(_CASES[100 if len(_CASES) > 100 else 0])
    return acc.pack()


def run(ctx):
    global _CASES
    _CASES = list(gen_cases(ctx.tier, ctx.seed))
    eng.so_path("plain")
    done = 0
    for job, r in pool.pmap_split(_work, len(_CASES), 150, timeout=120, single_timeout=20):
        if isinstance(r, pool.Crash) and r.kind == "skipped":
            ctx.exhaustive = False
            if "re-run-of-failed-chunks-capped" not in ctx.caps:
                ctx.caps.append("re-run-of-failed-chunks-capped")
            continue
        if isinstance(r, pool.Crash):
            c = _CASES[job[0]]
            ctx.violation("C09:%s:%s:engine-%s%s" % (c["sub"], c["policy"], r.kind, ":empty-request-list" if not req_seconds(c["t_sample"]) else ""),
                          r.detail, c)
            done += 1
            continue
        core.merge(ctx, r)
        done += job[1] - job[0]
    nl = len(_lists(3 if ctx.tier == "quick" else 4, LATTICE, 0))
    ctx.subspace("all %d non-decreasing request lists (length 0..%d) over the lattice {0,1/8,..,5/4} x 6 t_max values x 3 engines "
                 "x {grid,graph}; 5 intervals x 5 t_max; on_iteration / no_sampling; explicit quantities in ms/min/h; dt=0.1 "
                 "near-tie pass; all {iterate,sample} histories to depth %d x 4 policies x 3 engines"
                 % (nl, 3 if ctx.tier == "quick" else 4, 5 if ctx.tier == "quick" else 6),
                 len(_CASES), done, exhaustive=(done == len(_CASES)))
    ctx.rule("one case per (engine, space type, policy, request list / interval / op history, t_max, seed); non-trivial = "
             "at least one request or an explicit-call history; every recorded sample is mapped onto the step sequence of "
             "the per-iteration run and compared with the required/allowed sets of the reference contract")
    ctx.assume("step sequence (T_k, X_k) taken from the implementation's own per-iteration run with the same seed; exact "
               "decisions on the dyadic lattice, near-tie rule (1e-9) elsewhere")


def replay(case):
    return check_case(case)
