"""C09 — sampling contract: which states are recorded, when, and in what shape.

E1: all non-decreasing request lists (with duplicates) up to a length bound over an exactly representable
time lattice x t_max x policies x engines x space types; E2: all {iterate, sample} histories up to depth 6
under each policy.  Oracle: mc/ref/sampler.py evaluated on the implementation's own step sequence
(per-iteration run of the same script and seed).
E3 (script-object history): a script goes through copy() / copy.deepcopy / trajectory.script and is THEN given new
settings through the public setters; the contract is evaluated on the FINAL settings (default t_max = last requested
time of the final list), differential against a script built directly with those settings.
E5 (completion by t_max): the engine clock is read after every iterate() of the per-iteration run: every call that
advanced the clock is a step and must have its record (so the step list the contract is evaluated on is complete, incl.
the completing step); a run that ended beyond t_max must cover every requested time not beyond t_max; Gillespie runs of
a system that stays active, ending by t_max, under all policies, with requests up to and equal to t_max.
E6 (dict route): the same settings given as a dictionary (rdscript_from_dict: canonical keys, alias keys, quantities as
strings with unit, and the rdscript_to_dict image of a script), t_max explicit and different from the last request.
E7 (get_output peek): driven histories over {iterate, sample, get_output}: a look at the trajectory in mid-run; the final
trajectory must still hold every record of the run, the peeked one the records made so far.
E4 (tiny interval): on_interval with intervals far below the step (2^-31 .. 2^-40, 1e-9, "1 ns"): every step holds a
new multiple of the interval, so every step (event) is the first one at or after a multiple and must be recorded.
"""
import copy
import fractions
import functools
import itertools
import json
import math

from mc import core, pool, models, eng
from mc.ref import sampler

core.setup_paths()

DT = 0.25
LATTICE = [k / 8.0 for k in range(11)]          # 0, 1/8, ..., 1.25
TMAX = ["default", 0.0, 0.3, 0.5, 0.625, 2.0]
INTERVALS = [0.125, 0.25, 0.375, 0.5, 0.7]
MAX_ITER = 4000
TINY_INTERVALS = [2.0 ** -31, 2.0 ** -33, 2.0 ** -40, 1e-9, "1 ns"]
UNIT_S = {"s": 1.0, "ms": 1e-3, "ns": 1e-9, "min": 60.0, "h": 3600.0}
# script-object history: the script every history starts from, the routes it goes through and the setter edits
EXPLICIT_LONG = ["PIPIIP", "PPIPIIPP", "IPIPIPIP", "PIIPPIIIP"]     # several sample() calls separated by iterations
HIST_INIT = {"t_sample": [0, 0.5, 1.0], "dt": DT, "policy": "on_t_sample", "interval": 0.375}
HIST_ROUTES = ["same", "copy", "deepcopy", "copy-copy", "traj"]
HIST_ATTR = {"t_sample": "t_sample", "time_step": "dt", "sampling_policy": "policy", "sampling_interval": "interval", "t_max": "t_max"}


def spec_for(gtype, variant=None):
    if variant == "extinct":
        # irreversible A -> B without diffusion: a stochastic run ends because nothing can happen any more
        sp = spec_for(gtype)
        sp["species"] = [{"label": "A", "D": 0.0}, {"label": "B", "D": 0.0}]
        sp["reactions"] = [{"eq": [[["A", 1]], [["B", 1]]], "kf": 4.0, "kr": 0.0}]
        sp["state"] = [2.0, 1.0, 0.0, 0.0]
        return sp
    base = {"species": [{"label": "A", "D": 0.5}, {"label": "B", "D": 0.25}],
            "reactions": [{"eq": [[["A", 1]], [["B", 1]]], "kf": 0.8, "kr": 0.1}], "envs": [""],
            "state": [6.0, 3.0, 2.0, 5.0]}
    if gtype == "grid":
        base["space"] = {"type": "grid", "w": 2, "h": 1, "d": 1, "vol": 1.0}
    else:
        base["space"] = {"type": "graph", "nodes": [{"vol": 1.0, "env": 0}, {"vol": 2.0, "env": 0}],
                         "edges": [[0, 1, 1.5, 0.75]]}
    return base


def mk_script(case, policy=None):
    sc = _mk_script_dict(case, policy)
    f = case.get("scale")
    if case.get("slow"):
        f = 1000.0
    if f:
        for r in sc["system"]["reactions"]:
            r["kf"], r["kr"] = r["kf"] / f, r["kr"] / f
        for sp_ in sc["system"]["species"]:
            sp_["D"] = sp_["D"] / f
    if "dictform" in case and policy is None:
        return dict_script(case, sc)
    return models.build_script(sc)


DICT_KEYS = {"canonical": ("time_step", "t_max", "sampling_policy", "sampling_interval", "rng_seed"),
             "alias": ("dt", "tmax", "sampling policy", "sampling interval", "seed"),
             "alias2": ("time step", "t_max", "sampling_policy", "sampling_interval", "rng seed"),
             "strings": ("time_step", "t_max", "sampling_policy", "sampling_interval", "rng_seed")}


def dict_script(case, sc):
    """The script of the case given to the library as a dictionary (the run under test only; the per-iteration
    step list comes from the directly constructed script)."""
    from strengths.rdscript import rdscript_from_dict, rdscript_to_dict
    from strengths.rdsystem import rdsystem_to_dict
    direct = models.build_script(sc)
    form = case["dictform"]
    if form == "to_dict":
        return rdscript_from_dict(rdscript_to_dict(direct))
    k_dt, k_tmax, k_pol, k_iv, k_seed = DICT_KEYS[form]
    q = (lambda v: "%r s" % float(v)) if form == "strings" else (lambda v: v)
    d = {"system": rdsystem_to_dict(direct.system), "t_sample": list(sc["t_sample"]), k_dt: q(sc["time_step"]),
         k_pol: sc["policy"], k_seed: sc["seed"], "init_state_processing": sc["isp"]}
    if "t_max" in sc:
        d[k_tmax] = q(sc["t_max"])
    if "interval" in sc:
        d[k_iv] = q(sc["interval"])
    return rdscript_from_dict(d)


def _mk_script_dict(case, policy=None):
    sc = {"system": spec_for(case["gtype"], case.get("variant")), "t_sample": case["t_sample"], "time_step": case.get("dt", DT),
          "policy": policy or case["policy"], "seed": case.get("seed", 0), "isp": "none"}
    if case.get("t_max", "default") != "default":
        sc["t_max"] = case["t_max"]
    if "interval" in case:
        sc["interval"] = case["interval"]
    return sc


def drive(engine, script, ops=None):
    """setup; then either iterate() to completion, or the given op string over I (iterate) / P (sample).
    Returns (returns of the driver calls, observations after each op, trajectory)."""
    engine.setup(script)
    rets, obs = [], []
    n = script.system.state_size()
    if ops is None:
        k = 0
        obs.append(eng.raw_time(engine))          # engine clock after setup and after every iterate()
        while k < MAX_ITER:
            k += 1
            r = engine.iterate()
            rets.append(bool(r))
            obs.append(eng.raw_time(engine))
            if not r:
                break
    else:
        obs.append((eng.raw_time(engine), eng.raw_state(engine, n), None))
        for op in ops:
            peek = None
            if op == "I":
                rets.append(bool(engine.iterate()))
            elif op == "G":
                g = engine.get_output()           # a look at the trajectory in mid-run
                peek = models.traj_arrays(g) + (len(g.data.value),)
                rets.append(None)
            else:
                engine.sample()
                rets.append(None)
            obs.append((eng.raw_time(engine), eng.raw_state(engine, n), peek))
    complete = engine.is_complete()
    out = engine.get_output()
    engine.finalize()
    return rets, obs, out, complete


@functools.lru_cache(maxsize=4096)
def _baseline(key):
    case = json.loads(key)
    script = mk_script(case, policy="on_iteration")
    rets, obs, out, complete = drive(eng.make_engine(case["engine"]), script)
    T, X = models.traj_arrays(out)
    return T, X, len(rets), complete, obs


def baseline(case):
    k = {q: case[q] for q in ("engine", "gtype", "t_sample", "t_max", "seed", "dt", "interval", "variant", "slow", "scale") if q in case}
    # the step sequence does not depend on the request list except through the default t_max
    if k.get("t_max", "default") != "default":
        k["t_sample"] = [0]
    else:
        ts = k["t_sample"]
        if isinstance(ts, dict):
            k["t_sample"] = {"values": ts["values"][-1:], "unit": ts["unit"]}
        else:
            k["t_sample"] = [ts[-1]] if ts else []
    k.pop("interval", None)
    return _baseline(json.dumps(k, sort_keys=True))


def as_seconds(v):
    """numeric value in seconds of a request given as number or '<v> <unit>' string (ms, min, h, s)."""
    if isinstance(v, str):
        num, unit = v.split()
        return float(num) * UNIT_S[unit]
    return float(v)


def req_seconds(ts):
    if isinstance(ts, dict):
        f = UNIT_S[ts["unit"]]
        return [float(v) * f for v in ts["values"]]
    return [as_seconds(v) for v in ts]


def effective(case):
    """The settings a run is judged by.  For a script-object history: the initial settings overwritten, in order, by the
    values given to the public setters (t_max "default" = last requested time of the FINAL list)."""
    if "init" not in case:
        return case
    fin = dict(case["init"])
    for attr, val in case["edits"]:
        fin[HIST_ATTR[attr]] = val
    eff = {k: v for k, v in case.items() if k not in ("init", "edits")}
    eff.update(fin)
    return eff


def history_script(case):
    """initial script -> route (same object / copy() / copy.deepcopy / copy of a copy / script of a finished
    trajectory of the same engine) -> public setters, in the order of case["edits"]."""
    c0 = {k: v for k, v in case.items() if k not in ("init", "edits")}
    c0.update(case["init"])
    s0 = mk_script(c0)
    route = case["route"]
    if route == "same":
        s1 = s0
    elif route == "copy":
        s1 = s0.copy()
    elif route == "deepcopy":
        s1 = copy.deepcopy(s0)
    elif route == "copy-copy":
        s1 = s0.copy().copy()
    elif route == "traj":
        s1 = drive(eng.make_engine(case["engine"]), s0)[2].script
    else:
        raise ValueError(route)
    for attr, val in case["edits"]:
        setattr(s1, attr, val)
    return s1


def tiny_interval_contract(T, iv, t_max):
    """on_interval for an interval that may be far below the step gaps (the multiples are not enumerated).
    Step k >= 1 is 'the first step at or after a multiple' iff a multiple m*iv lies in ]T[k-1], T[k]]; step 0 serves
    the multiple 0.  Power-of-two intervals: decided exactly (rational arithmetic).  Other intervals (1e-9, "1 ns":
    the value that reaches the engine may differ by rounding, which shifts the 2^31-th multiple by several
    intervals): a gap of at least two intervals certainly holds a multiple, a shorter gap is left open.
    A step is only REQUIRED when such a multiple is not beyond t_max."""
    exact_iv = math.frexp(iv)[0] == 0.5
    F = fractions.Fraction
    fiv = F(iv)
    required, allowed = [{0}], {0}
    for k in range(1, len(T)):
        a, b = F(T[k - 1]), F(T[k])
        bb = b if t_max is None else min(b, F(t_max))
        if exact_iv:
            may = math.floor(b / fiv) > math.floor(a / fiv)
            must = bb > a and math.floor(bb / fiv) > math.floor(a / fiv)
        else:
            may = True
            must = bb - a >= 2 * fiv
        if may:
            allowed.add(k)
        if must:
            required.append({k})
    return required, allowed


def map_records(T, X, t, d):
    idx = []
    for j in range(len(t)):
        k = None
        for q in range(len(T)):
            if T[q] == t[j]:
                k = q
                break
        if k is None or X[k] != d[j]:
            return None, j
        idx.append(k)
    return idx, None


def check_case(case):
    out = []
    case0, case = case, effective(case)
    tag = "%s:%s" % (case["sub"], case["policy"])
    try:
        T, X, n_iter_base, comp_base, clock = baseline(case)
    except Exception as e:
        return [("C09:baseline:unexpected-exception", "%s: %s" % (type(e).__name__, e))]
    nsp, ncell = 2, 2
    fixed = case["engine"] != "gillespie"
    # records made by the per-iteration policy are one per step: strictly increasing times, as many as steps + 1
    if any(not b > a for a, b in zip(T, T[1:])):
        out.append(("C09:baseline:%s:per-iteration-times-not-strictly-increasing" % case["engine"], "times %r" % (T[-6:],)))
        return out
    if "ops" not in case and len(T) - 1 > n_iter_base:
        out.append(("C09:baseline:%s:more-records-than-iterations" % case["engine"], "%d records for %d iterate() calls" % (len(T), n_iter_base)))
        return out
    # per-iteration sampling records every step: every iterate() call that advanced the engine clock is a step (the
    # completing one included) and must have its record, at the clock time
    steps = [clock[0]] + [b for a, b in zip(clock, clock[1:]) if b > a]
    if len(steps) != len(T) or any(abs(a - b) > 1e-12 * max(abs(a), abs(b)) for a, b in zip(steps, T)):
        miss = [c for c in steps if not any(abs(c - v) <= 1e-12 * max(abs(c), abs(v)) for v in T)]
        out.append(("C09:baseline:%s:per-iteration-step-not-recorded" % case["engine"],
                    "on_iteration: the engine clock advanced to %r (last: %r, complete=%r) over %d iterate() calls, records at %r; step(s) without record: %r"
                    % (steps[-4:], clock[-1], comp_base, n_iter_base, T[-4:], miss[-4:])))
    exact = bool(case.get("exact", True))
    dt = as_seconds(case.get("dt", DT))
    reqs = req_seconds(case["t_sample"])
    tmax = case.get("t_max", "default")
    tmax_v = (reqs[-1] if reqs else None) if tmax == "default" else as_seconds(tmax)
    # ---- fixed-step schedule: T_k = k*dt, K = first step beyond t_max, then completion
    if fixed and "ops" not in case:
        for k, tk in enumerate(T):
            if abs(tk - k * dt) > 1e-9 * max(k * dt, dt):
                out.append(("C09:schedule:step-time", "step %d at t=%.17g, expected %d*dt=%.17g" % (k, tk, k, k * dt)))
                break
        if tmax_v is not None and tmax_v >= 0:
            K = len(T) - 1
            beyond = [k for k in range(len(T)) if T[k] > tmax_v * (1 + 1e-9) + 1e-300]
            notbeyond_last = K >= 1 and T[K - 1] > tmax_v * (1 + (0 if exact else 1e-9)) + (0 if exact else 1e-12)
            if not comp_base:
                out.append(("C09:schedule:not-complete", "run not complete after %d iterations (t_max %.6g)" % (n_iter_base, tmax_v)))
            elif not (T[K] > tmax_v * (1 - (0 if exact else 1e-9))) or notbeyond_last:
                out.append(("C09:schedule:last-step", "steps %r for t_max %.6g: the run must end at the first step beyond t_max" % (T, tmax_v)))
            if n_iter_base != K:
                out.append(("C09:schedule:iterations", "%d iterate() calls until completion, %d steps recorded" % (n_iter_base, K)))
    # ---- the run under test
    try:
        script = history_script(case0) if "init" in case0 else mk_script(case)
        rets, obs, traj, complete = drive(eng.make_engine(case["engine"]), script, case.get("ops"))
        t, d = models.traj_arrays(traj)
    except Exception as e:
        return out + [("C09:%s:unexpected-exception" % tag, "%s: %s" % (type(e).__name__, e))]
    nvals = len(traj.data.value)
    if nvals != len(t) * nsp * ncell:
        out.append(("C09:%s:shape" % tag, "%d data values for %d samples x %d species x %d cells" % (nvals, len(t), nsp, ncell)))
        return out
    if "ops" not in case:
        if len(rets) != n_iter_base:
            out.append(("C09:%s:iterations-differ-from-per-iteration-run" % tag, "%d vs %d" % (len(rets), n_iter_base)))
        if rets and (any(not r for r in rets[:-1]) or rets[-1]):
            out.append(("C09:%s:driver-return" % tag, "iterate() returns %r" % (rets,)))
        if not complete:
            out.append(("C09:%s:not-complete" % tag, "is_complete() is False after the loop ended"))
        # a run that went beyond t_max (engine clock after the last iterate()) has a step at or after every requested
        # time not beyond t_max: each of them must be covered by a record (independent of the per-iteration run)
        if case["policy"] == "on_t_sample" and tmax_v is not None and tmax_v >= 0 and obs and obs[-1] > tmax_v * (1 + (0 if exact else 1e-9)):
            slack = 0.0 if exact else 1e-9
            unc = [r for r in reqs if r <= tmax_v * (1 - slack) - (0 if exact else 1e-300) and not any(v >= r * (1 - slack) for v in t)]
            if unc:
                out.append(("C09:%s:requested-time-not-covered" % tag,
                            "the run ended at clock %.17g > t_max %.17g but requested time(s) %r (not beyond t_max) have no record at or after them; "
                            "%d records, last at %r | requests %r" % (obs[-1], tmax_v, unc[:4], len(t), t[-1] if t else None, reqs[-6:])))
    idx, badj = map_records(T, X, t, d)
    if idx is None:
        out.append(("C09:%s:record-is-not-a-step-state" % tag,
                    "record %d (t=%.17g, x=%r) is not the (time, state) of any step of the run; steps at %r" % (badj, t[badj], d[badj], T)))
        return out
    if "ops" not in case:
        if case["sub"] == "interval-tiny":
            required, allowed = tiny_interval_contract(T, as_seconds(case["interval"]), tmax_v)
        else:
            required, allowed = sampler.contract(T, reqs, case["policy"], interval=case.get("interval"), t_max=tmax_v, exact=exact)
        for cls, msg in sampler.check_records(T, idx, required, allowed):
            out.append(("C09:%s:%s" % (tag, cls), msg + " | requests %r t_max %r" % (reqs, tmax_v)
                        + (" interval %r" % (case["interval"],) if case["policy"] == "on_interval" else "")
                        + (" | script history: %r -> %s -> setters %r" % (case0["init"], case0["route"], case0["edits"]) if "init" in case0 else "")))
        if idx and idx[0] == 0 and d[0] != spec_for(case["gtype"], case.get("variant"))["state"]:
            out.append(("C09:%s:t0-record" % tag, "record at t=0 is %r, initial state %r" % (d[0], spec_for(case["gtype"], case.get("variant"))["state"])))
    else:
        # explicit sample() calls mixed in
        ops = case["ops"]
        step = 0
        psteps = []
        nI = 0
        for q, op in enumerate(ops):
            if op == "I":
                nI += 1
            # engine position after this op, located on the baseline by time
            tt = obs[q + 1][0]
            ks = [k for k in range(len(T)) if T[k] == tt]
            if not ks or X[ks[0]] != obs[q + 1][1]:
                out.append(("C09:%s:engine-state-off-baseline" % tag, "after ops %s the engine is at t=%.17g x=%r" % (ops[:q + 1], tt, obs[q + 1][1])))
                return out
            if op == "P":
                psteps.append(ks[0])
        reached = max([k for k in range(len(T)) if T[k] == obs[-1][0]] or [0])
        Tr = T[:reached + 1]
        required, allowed = sampler.contract(Tr, reqs, case["policy"], interval=case.get("interval"), t_max=tmax_v, exact=exact)
        for a, b in zip(t, t[1:]):
            if b < a:
                out.append(("C09:%s:times-decrease" % tag, "sample times %r" % (t,)))
                break
        s = set(idx)
        for c in required:
            if not (s & c):
                out.append(("C09:%s:required-record-missing" % tag, "ops %s: no record at step(s) %r; recorded %r" % (ops, sorted(c), idx)))
                break
        for k in set(psteps):
            if k not in s:
                out.append(("C09:%s:explicit-sample-not-recorded" % tag, "ops %s: sample() called at step %d but no record of it; recorded %r" % (ops, k, idx)))
                break
        extra = [k for k in idx if k not in allowed and k not in psteps]
        if extra:
            out.append(("C09:%s:unrequested-record" % tag, "ops %s: record(s) at step(s) %r neither requested by the policy nor by sample(); recorded %r" % (ops, extra, idx)))
        for q, op in enumerate(ops):
            if op != "G":
                continue
            pt, pd, pn = obs[q + 1][2]
            if pn != len(pt) * nsp * ncell:
                out.append(("C09:%s:peek-shape" % tag, "ops %s: get_output() after %s: %d data values for %d samples" % (ops, ops[:q], pn, len(pt))))
                break
            if pt != t[:len(pt)] or pd != d[:len(pt)]:
                out.append(("C09:%s:peek-not-a-prefix-of-the-final-trajectory" % tag,
                            "ops %s: get_output() after %s held records at %r, the final trajectory holds %r" % (ops, ops[:q], pt, t)))
                break
            # records made before the peek (explicit calls) must already be in it
            before = set(psteps[:ops[:q].count("P")])
            pidx = idx[:len(pt)]
            if not before <= set(pidx):
                out.append(("C09:%s:peek-lacks-earlier-explicit-record" % tag,
                            "ops %s: get_output() after %s holds steps %r, sample() was called at steps %r" % (ops, ops[:q], pidx, sorted(before))))
                break
        if case["policy"] == "no_sampling" and len(idx) > len(psteps):
            out.append(("C09:%s:more-records-than-calls" % tag, "ops %s: %d records for %d sample() calls" % (ops, len(idx), len(psteps))))
    return out


# ---- enumeration --------------------------------------------------------------------------------

def _lists(maxlen, lattice, minlen=0):
    out = []
    for n in range(minlen, maxlen + 1):
        for c in itertools.combinations_with_replacement(lattice, n):
            out.append(list(c))
    return out


def gen_tiny(engines, gtypes, sd):
    k = 0
    for e in engines:
        for g in gtypes:
            for iv in TINY_INTERVALS:
                for dt in (0.5, 0.25):
                    for tm in (4.0, 2.7):
                        k += 1
                        yield {"sub": "interval-tiny", "policy": "on_interval", "engine": e, "gtype": g, "t_sample": [0],
                               "t_max": tm, "interval": iv, "dt": dt, "seed": sd(e, k), "exact": True}


def hist_edit_sets(tier, init_tmax):
    """All combinations of at most one edit per property, applied in the listed order (thorough: also reversed)."""
    ts_edits = [None, [0, 0.5, 1.0, 1.25, 1.75], [0, 0.5], [0.375], [1.5]]           # keep, longer, shorter, single, single later
    dt_edits = [None, 0.125] + ([0.5] if tier != "quick" else [])
    pol_edits = [[], [["sampling_policy", "on_iteration"]], [["sampling_policy", "no_sampling"]],
                 [["sampling_policy", "on_interval"]], [["sampling_policy", "on_interval"], ["sampling_interval", 0.25]]]
    tm_edits = [None, 0.625 if init_tmax == "default" else "default"]
    out = []
    for ts in ts_edits:
        for dt in dt_edits:
            for pe in pol_edits:
                for tm in tm_edits:
                    if tier == "quick" and tm is not None and (dt is not None or pe):
                        continue      # quick: t_max is only switched together with a new request list (or alone)
                    ed = []
                    if ts is not None:
                        ed.append(["t_sample", ts])
                    if dt is not None:
                        ed.append(["time_step", dt])
                    ed.extend(pe)
                    if tm is not None:
                        ed.append(["t_max", tm])
                    out.append(ed)
                    if tier != "quick" and len(ed) >= 2:
                        out.append(ed[::-1])
    return out


def gen_history(tier, engines, gtypes, sd):
    k = 0
    for e in engines:
        for g in gtypes:
            for tm0 in ("default", 0.625) + ((2.0,) if tier != "quick" else ()):
                init = dict(HIST_INIT)
                init["t_max"] = tm0
                for route in HIST_ROUTES:
                    for ed in hist_edit_sets(tier, tm0):
                        k += 1
                        c = {"sub": "history", "engine": e, "gtype": g, "seed": sd(e, k), "exact": True,
                             "init": init, "route": route, "edits": ed}
                        c["policy"] = effective(c)["policy"]      # informative only: the oracle recomputes it
                        yield c


def gen_dict(engines, gtypes, sd):
    k = 0
    for e in engines:
        for g in gtypes:
            for pol, lst, extra in (("on_t_sample", [0, 0.5, 1.0], {}), ("on_t_sample", [0.125, 0.5], {}), ("on_t_sample", [1.25], {}),
                                    ("on_iteration", [0, 0.5], {}), ("on_interval", [0, 0.5], {"interval": 0.375}), ("no_sampling", [0, 0.5], {})):
                for tm in TMAX:
                    for form in ("canonical", "alias", "alias2", "strings", "to_dict"):
                        k += 1
                        c = {"sub": "dict", "policy": pol, "engine": e, "gtype": g, "t_sample": lst, "t_max": tm,
                             "seed": sd(e, k), "exact": True, "dictform": form}
                        c.update(extra)
                        yield c


def peek_histories(tier):
    """every {I,P} history up to depth 3 (thorough: 4) with one get_output() inserted at every position (thorough: also a
    second one at every later position), + longer ones."""
    depth = 3 if tier == "quick" else 4
    out = []
    for n in range(1, depth + 1):
        for ops in itertools.product("IP", repeat=n):
            ops = "".join(ops)
            for a in range(n + 1):
                h = ops[:a] + "G" + ops[a:]
                out.append(h)
                if tier != "quick":
                    for b in range(a + 1, n + 1):
                        out.append(h[:b + 1] + "G" + h[b + 1:])
    for h in ("IGIIP", "PGIPGIIP", "IIGIII", "GIIIG", "PIGPIGPI"):
        if h not in out:
            out.append(h)
    return out


def gen_peek(tier, engines, gtypes, sd):
    k = 0
    hist = peek_histories(tier)
    for g in gtypes:
        for e in engines:
            for pol, extra in (("no_sampling", {}), ("on_t_sample", {}), ("on_iteration", {}), ("on_interval", {"interval": 0.375})):
                for ops in hist:
                    k += 1
                    c = {"sub": "peek", "policy": pol, "engine": e, "gtype": g, "t_sample": [0.125, 0.5],
                         "t_max": 0.6, "seed": sd(e, k), "exact": True, "ops": ops}
                    c.update(extra)
                    yield c


def gen_gillespie_tmax(tier, gtypes, seed0):
    """The system of spec_for (reversible reaction + diffusion, 16 molecules) never runs out of events: the run ends
    because an event falls beyond t_max.  Requests lie up to and ON t_max (default t_max = last request), t_max also
    between two requests and beyond the last one.  Requests / t_max reach the engine unchanged (default units) and the
    event times are whatever the engine draws, so float comparisons are exact."""
    seeds = list(range(1000 * seed0 + 10, 1000 * seed0 + (14 if tier == "quick" else 18)))
    lists = [[0.1 * i for i in range(25)], [0, 0.5, 1.0, 1.5, 2.0], [0.25, 2.0, 2.0], [1.0]]
    pols = (("on_t_sample", {}), ("on_iteration", {}), ("on_interval", {"interval": 0.125}), ("on_interval", {"interval": 0.375}), ("no_sampling", {}))
    for g in gtypes:
        for pol, extra in pols:
            for lst in lists:
                for tm in ("default", lst[-1], 1.75, 3.0):
                    for s_ in seeds:
                        c = {"sub": "gillespie-tmax", "policy": pol, "engine": "gillespie", "gtype": g, "t_sample": lst,
                             "t_max": tm, "seed": s_, "exact": True}
                        c.update(extra)
                        yield c


def gen_cases(tier, seed0):
    engines = ["euler", "tauleap", "gillespie"]
    gtypes = ["grid", "graph"]
    seeds = [1000 * seed0, 1000 * seed0 + 1] if tier == "quick" else list(range(1000 * seed0, 1000 * seed0 + 4))
    lists = _lists(3 if tier == "quick" else 4, LATTICE, 0)

    def sd(engine, k):
        return seeds[k % len(seeds)] if engine != "euler" else seeds[0]
    k = 0
    for e in engines:
        for g in gtypes:
            for lst in lists:
                for tm in TMAX:
                    if tm == "default" and not lst:
                        continue
                    k += 1
                    yield {"sub": "lattice", "policy": "on_t_sample", "engine": e, "gtype": g, "t_sample": lst,
                           "t_max": tm, "seed": sd(e, k), "exact": True}
            for iv in INTERVALS:
                for tm in TMAX[1:]:
                    k += 1
                    yield {"sub": "interval", "policy": "on_interval", "engine": e, "gtype": g, "t_sample": [0],
                           "t_max": tm, "interval": iv, "seed": sd(e, k), "exact": True}
            for pol in ("on_iteration", "no_sampling"):
                for tm in TMAX[1:]:
                    k += 1
                    yield {"sub": "simple", "policy": pol, "engine": e, "gtype": g, "t_sample": [0, 0.5],
                           "t_max": tm, "seed": sd(e, k), "exact": True}
    # stochastic runs that end by extinction (total propensity 0) before t_max, under every policy
    for e in ("gillespie", "tauleap"):
        for g in gtypes:
            for pol, extra in (("on_iteration", {}), ("on_t_sample", {}), ("on_interval", {"interval": 0.125}), ("no_sampling", {})):
                for s_ in seeds:
                    k += 1
                    c = {"sub": "extinct", "policy": pol, "engine": e, "gtype": g, "t_sample": [0, 0.125, 0.5, 3.0], "t_max": 4.0,
                         "seed": s_, "exact": True, "variant": "extinct"}
                    c.update(extra)
                    yield c
    # long intervals: interval = n steps for every n up to 100 (dt = 1): the record must sit on the step that lands on n, 2n, 3n
    for e in ("euler", "tauleap"):
        for g in gtypes:
            for n in range(1, 101):
                if tier == "quick" and e == "tauleap" and n % 2:
                    continue
                k += 1
                yield {"sub": "interval-long", "policy": "on_interval", "engine": e, "gtype": g, "t_sample": [0], "t_max": 3.0 * n + 0.5,
                       "interval": float(n), "dt": 1.0, "seed": sd(e, k), "exact": True, "slow": True}
    # the same contract at other time scales (dt = 2^-42, 2^22): thresholds must not be absolute
    for e in ("euler", "tauleap"):
        for scale in (2.0 ** -42, 2.0 ** 22):
            for lst in _lists(2, [0.0, 0.125, 0.25, 0.5, 0.625], 1):
                for tm in ("default", 0.5, 0.625):
                    k += 1
                    yield {"sub": "scaled", "policy": "on_t_sample", "engine": e, "gtype": "grid", "t_sample": [v * scale for v in lst],
                           "t_max": tm if tm == "default" else tm * scale, "dt": DT * scale, "seed": sd(e, k), "exact": True, "scale": scale}
    # time quantities given in other units (explicit quantities; script units stay default)
    for e in ("euler", "gillespie"):
        for unit, f in (("ms", 1000.0), ("min", 1 / 60.0), ("h", 1 / 3600.0)):
            for lst in _lists(2, [0.0, 0.125, 0.25, 0.5, 0.625], 1):
                for tm in ("default", 0.5, 0.625):
                    k += 1
                    yield {"sub": "units-" + unit, "policy": "on_t_sample", "engine": e, "gtype": "grid",
                           "t_sample": {"values": [v * f for v in lst], "unit": unit},
                           "t_max": tm if tm == "default" else "%r %s" % (tm * f, unit),
                           "dt": "%r %s" % (DT * f, unit), "seed": sd(e, k), "exact": False}
    # non-dyadic step: near-tie rule
    for e in ("euler", "tauleap"):
        for lst in _lists(2, [j * 0.05 for j in range(11)], 1):
            for tm in ("default", 0.3, 0.45):
                k += 1
                yield {"sub": "nondyadic", "policy": "on_t_sample", "engine": e, "gtype": "grid", "t_sample": lst,
                       "t_max": tm, "dt": 0.1, "seed": sd(e, k), "exact": False}
    # tiny intervals: t/interval crosses 2^31 during the run (2^-31: at t = 1; 2^-33: at t = 1/4; 2^-40 and 1e-9 ...:
    # at the first steps); every step holds a new multiple, so every step / event must be recorded
    # (own case counters: the seeds of the sub-spaces enumerated after these two stay what they were)
    for c in gen_tiny(engines, gtypes, sd):
        yield c
    # script-object history: copy() / deepcopy / trajectory.script, then the public setters, then the run
    for c in gen_history(tier, engines, gtypes, sd):
        yield c
    # the settings given as a dictionary (rdscript_from_dict), t_max explicit and different from the last request
    for c in gen_dict(engines, gtypes, sd):
        yield c
    # get_output() peeks inside the driven histories
    for c in gen_peek(tier, engines, gtypes, sd):
        yield c
    # Gillespie runs of a system that stays active, ending by t_max, all policies, requests up to and equal to t_max
    for c in gen_gillespie_tmax(tier, gtypes, seed0):
        yield c
    # explicit sample() calls: all {I,P} histories up to depth 6 (quick: 5) + longer ones with several sample() calls
    # separated by iterations, on both space types (grid first: its seeds stay what they were)
    depth = 5 if tier == "quick" else 6
    for g in gtypes:
        for e in engines:
            for pol, extra in (("no_sampling", {}), ("on_t_sample", {}), ("on_iteration", {}), ("on_interval", {"interval": 0.375})):
                hist = ["".join(ops) for n in range(1, depth + 1) for ops in itertools.product("IP", repeat=n)]
                for ops in hist + [h for h in EXPLICIT_LONG if h not in hist]:
                    if g == "grid" and ops in EXPLICIT_LONG and len(ops) > depth:
                        k2 = k + 7        # added later: does not move the counter of the older cases
                    else:
                        k += 1
                        k2 = k
                    c = {"sub": "explicit", "policy": pol, "engine": e, "gtype": g, "t_sample": [0.125, 0.5],
                         "t_max": 0.6, "seed": sd(e, k2), "exact": True, "ops": ops}
                    c.update(extra)
                    yield c


_CASES = None


def _work(job):
    lo, hi = job
    acc = core.Acc()
    for case in _CASES[lo:hi]:
        res = check_case(case)
        nt = 1 if (len(req_seconds(effective(case)["t_sample"])) >= 1 or "ops" in case) else 0
        acc.add(states=1, transitions=1 + len(case.get("ops", "")) + len(case.get("edits", [])) + (1 if case.get("route", "same") != "same" else 0),
                traces=1, evaluations=1, nontrivial=nt)
        acc.count("cases:" + case["sub"])
        if case["sub"] == "history" and case["init"]["t_max"] == "default" and case["route"] != "same" \
                and any(a == "t_sample" for a, _ in case["edits"]) and not any(a == "t_max" for a, _ in case["edits"]):
            acc.count("history:default-t_max-script-duplicated-then-given-new-times")
        if case["sub"] == "gillespie-tmax":
            try:
                bl = baseline(case)
                tm = req_seconds(case["t_sample"])[-1] if case["t_max"] == "default" else as_seconds(case["t_max"])
                if bl[3] and bl[4][-1] > tm:
                    acc.count("gillespie-tmax:run-ended-by-an-event-beyond-t_max")
            except Exception:
                pass
        if case["sub"] == "explicit" and case["policy"] == "no_sampling" and "PIP" in case["ops"].replace("PP", "P"):
            acc.count("explicit:%s:no_sampling-with-sample-calls-separated-by-iterations" % case["gtype"])
        for key, what in res:
            acc.violation(key, what, case)
    if lo == 0:
        acc.sample(_CASES[100 if len(_CASES) > 100 else 0])
    return acc.pack()


def run(ctx):
    global _CASES
    _CASES = list(gen_cases(ctx.tier, ctx.seed))
    eng.so_path("plain")
    done = 0
    for job, r in pool.pmap_split(_work, len(_CASES), 150, timeout=120, single_timeout=20):
        if isinstance(r, pool.Crash) and r.kind == "skipped":
            ctx.exhaustive = False
            if "re-run-of-failed-chunks-capped" not in ctx.caps:
                ctx.caps.append("re-run-of-failed-chunks-capped")
            continue
        if isinstance(r, pool.Crash):
            c = _CASES[job[0]]
            ctx.violation("C09:%s:%s:engine-%s%s" % (c["sub"], c["policy"], r.kind, ":empty-request-list" if not req_seconds(effective(c)["t_sample"]) else ""),
                          r.detail, c)
            done += 1
            continue
        core.merge(ctx, r)
        done += job[1] - job[0]
    per_sub = {}
    for c in _CASES:
        per_sub[c["sub"]] = per_sub.get(c["sub"], 0) + 1
    n_tiny, n_hist = per_sub.get("interval-tiny", 0), per_sub.get("history", 0)
    n_gt, n_ex = per_sub.get("gillespie-tmax", 0), per_sub.get("explicit", 0)
    n_di, n_pk = per_sub.get("dict", 0), per_sub.get("peek", 0)
    all_done = done == len(_CASES)
    ctx.subspace("tiny interval: on_interval with interval in {2^-31, 2^-33, 2^-40, 1e-9, '1 ns'} x dt {0.5, 0.25} x t_max {4, 2.7} "
                 "x 3 engines x {grid,graph}: t/interval crosses 2^31 during the run, every step / event holds a new multiple",
                 n_tiny, n_tiny if all_done else 0, exhaustive=all_done)
    ctx.subspace("script-object history: script (t_sample [0,.5,1], t_max default / explicit) x route {same object, copy(), "
                 "copy.deepcopy, copy of copy, trajectory.script of a finished run} x all combinations of at most one setter edit per "
                 "property (t_sample longer/shorter/single, time_step, sampling_policy (+ sampling_interval), t_max) x 3 engines x "
                 "{grid,graph}; judged on the final settings against a directly built script",
                 n_hist, n_hist if all_done else 0, exhaustive=all_done)
    ctx.subspace("completion by t_max: gillespie x {grid,graph} x {on_t_sample, on_iteration, on_interval 1/8 and 3/8, no_sampling} x 4 "
                 "request lists (0.1*i for i < 25; lattice; duplicates on t_max; single) x t_max {default = last request, explicit "
                 "last request, 1.75, 3} x %d seeds; system that never runs out of events" % (4 if ctx.tier == "quick" else 8),
                 n_gt, n_gt if all_done else 0, exhaustive=all_done)
    ctx.subspace("explicit sample() calls: all {iterate,sample} histories to depth %d + %d longer ones x 4 policies x 3 engines x "
                 "{grid,graph}" % (5 if ctx.tier == "quick" else 6, len(EXPLICIT_LONG)), n_ex, n_ex if all_done else 0, exhaustive=all_done)
    ctx.subspace("dict route: script given to rdscript_from_dict as {canonical keys, 2 alias key sets, quantities as 'v s' strings, "
                 "rdscript_to_dict image} x 6 (policy, request list) x 6 t_max values (default, before / between / after the requests) "
                 "x 3 engines x {grid,graph}", n_di, n_di if all_done else 0, exhaustive=all_done)
    ctx.subspace("get_output() peeks: %d histories over {iterate, sample, get_output} (every {I,P} history to depth %d with a peek at "
                 "every position%s, + 5 longer) x 4 policies x 3 engines x {grid,graph}"
                 % (len(peek_histories(ctx.tier)), 3 if ctx.tier == "quick" else 4, "" if ctx.tier == "quick" else " and a second one at every later position"),
                 n_pk, n_pk if all_done else 0, exhaustive=all_done)
    nl = len(_lists(3 if ctx.tier == "quick" else 4, LATTICE, 0))
    ctx.subspace("all %d non-decreasing request lists (length 0..%d) over the lattice {0,1/8,..,5/4} x 6 t_max values x 3 engines "
                 "x {grid,graph}; 5 intervals x 5 t_max; on_iteration / no_sampling; explicit quantities in ms/min/h; dt=0.1 "
                 "near-tie pass"
                 % (nl, 3 if ctx.tier == "quick" else 4),
                 len(_CASES) - n_tiny - n_hist - n_gt - n_ex - n_di - n_pk, (len(_CASES) - n_tiny - n_hist - n_gt - n_ex - n_di - n_pk) if all_done else 0,
                 exhaustive=all_done)
    ctx.rule("one case per (engine, space type, policy, request list / interval / op history, t_max, seed); non-trivial = "
             "at least one request or an explicit-call history; every recorded sample is mapped onto the step sequence of "
             "the per-iteration run and compared with the required/allowed sets of the reference contract")
    ctx.assume("step sequence (T_k, X_k) taken from the implementation's own per-iteration run with the same seed, checked "
               "to hold one record per iterate() call that advanced the engine clock; exact "
               "decisions on the dyadic lattice, near-tie rule (1e-9) elsewhere")


def replay(case):
    return check_case(case)
