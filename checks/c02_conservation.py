"""C02 — every engine conserves every conservation law of the network.

E1 over a catalogue (networks x spaces x engines x time steps x seed window); every recorded sample of
every run (per-iteration sampling) is a checked state: for every vector c of an exact integer basis of the
left null space of the net stoichiometry (restricted to species that are chemostated nowhere),
sum_cells c.x equals its value in sample 0 — exactly for Gillespie / tau-leap, to rounding for Euler.
"""
import itertools

from mc import core, pool, models, eng
from mc.ref import ratelaw, nullspace

core.setup_paths()

LABELS = ["A", "B", "C", "D"]


def R(sub, prod, kf, kr=0.0):
    return {"eq": [[[l, c] for l, c in sub], [[l, c] for l, c in prod]], "kf": kf, "kr": kr}


NETWORKS = [
    ("A<->B", [R([("A", 1)], [("B", 1)], 1.5, 0.5)]),
    ("A+B<->C", [R([("A", 1), ("B", 1)], [("C", 1)], 0.05, 0.7)]),
    ("2A<->B", [R([("A", 2)], [("B", 1)], 0.03, 0.4)]),
    ("A->A+B", [R([("A", 1)], [("A", 1), ("B", 1)], 0.6)]),
    ("0->A", [R([], [("A", 1)], 2.0)]),
    ("A->0", [R([("A", 1)], [], 0.8)]),
    ("cycle", [R([("A", 1)], [("B", 1)], 1.0), R([("B", 1)], [("C", 1)], 0.7), R([("C", 1)], [("A", 1)], 0.4)]),
    ("A->B,2B->C", [R([("A", 1)], [("B", 1)], 0.9), R([("B", 2)], [("C", 1)], 0.05, 0.2)]),
    ("none", []),
    # beyond three species: A + B <-> C + D and 2 D -> A (conserved: A + C + 2 D ... computed, not assumed)
    ("4-species", [R([("A", 1), ("B", 1)], [("C", 1), ("D", 1)], 0.04, 0.3), R([("D", 2)], [("A", 1)], 0.02, 0.1),
                   R([("B", 1)], [("C", 1)], 0.5, 0.25)]),
]

# species D: A sees a zero-diffusivity wall in environment 'w'; B homogeneous; C per-environment
DIFF = [{"c": 1.0, "w": 0.0}, 0.6, {"c": 0.3, "default": 0.9}, {"w": 0.4, "c": 0.2}]


def spaces(tier):
    out = []
    # every ordering of unequal axis lengths occurs (w > h, h > w, d > w, ...): index arithmetic that mixes up two axes
    # cannot cancel
    shapes = [(2, 1, 1), (3, 1, 1), (2, 2, 1), (3, 2, 1), (2, 3, 1), (1, 2, 3), (2, 2, 2), (3, 2, 2), (2, 3, 2), (4, 4, 1), (4, 3, 2),
              (2, 3, 4), (5, 1, 1), (1, 4, 1)]
    bcs = [dict(zip("xyz", c)) for c in itertools.product(["reflecting", "periodical"], repeat=3)]
    if tier == "quick":
        shapes = [(2, 1, 1), (3, 1, 1), (3, 2, 1), (2, 3, 1), (1, 2, 3), (2, 2, 2)]
        bcs = [bcs[0], bcs[7], bcs[5]]
    for (w, h, d) in shapes:
        n = w * h * d
        for bc in bcs:
            env = [1 if (i % 3 == 1) else 0 for i in range(n)]
            out.append(("grid%dx%dx%d:%s" % (w, h, d, "".join(v[0] for v in bc.values())),
                        {"type": "grid", "w": w, "h": h, "d": d, "bc": bc, "env": env, "vol": 1.5}))
    vols = [1.0, 8.0, 0.5, 27.0, 2.0]
    out.append(("graph-path+isolated", {"type": "graph", "nodes": [{"vol": vols[i], "env": i % 2} for i in range(4)],
                                         "edges": [[0, 1, 1.5, 0.75], [1, 2, 2.5, 1.25]]}))
    out.append(("graph-parallel+selfloop", {"type": "graph", "nodes": [{"vol": vols[i], "env": 0} for i in range(3)],
                                             "edges": [[0, 1, 1.5, 0.75], [1, 0, 0.5, 2.0], [2, 2, 3.0, 1.0], [1, 2, 2.5, 1.25]]}))
    out.append(("graph-cycle5", {"type": "graph", "nodes": [{"vol": vols[i], "env": (i // 2) % 2} for i in range(5)],
                                  "edges": [[i, (i + 1) % 5, 1.0 + i, 0.5 + i / 4] for i in range(5)]}))
    return out


def gen_cases(tier, seed0):
    nseeds = 4 if tier == "quick" else 32
    seeds = list(range(1000 * seed0, 1000 * seed0 + nseeds))
    for netname, reactions in NETWORKS:
        for spname, space in spaces(tier):
            n = ratelaw.ncells(space)
            nsp = 4 if netname == "4-species" else 3
            if nsp == 4 and tier == "quick" and not (spname.endswith("rrr") or spname.startswith("graph")):
                continue
            for variant in ("plain", "chemostat", "chemostat2", "chemostat-mid", "chemostat-first"):
                if variant != "plain" and not (netname in ("A+B<->C", "cycle", "none", "A<->B") and
                                               (spname.endswith(("rrr", "ppp")) or spname.startswith("graph"))):
                    continue
                state = [float(11 + (7 * q) % 23) for q in range(nsp * n)]
                chem = None
                if variant in ("chemostat", "chemostat-mid", "chemostat-first"):
                    chem = [0] * (nsp * n)
                    chem[2 * n + 0] = 1          # species C chemostated in the first and the last cell
                    chem[2 * n + n - 1] = 1
                elif variant == "chemostat2":
                    chem = [0] * (nsp * n)
                    for i in range(n):           # species C chemostated in every odd cell and in cell 0
                        if i % 2 == 1 or i == 0:
                            chem[2 * n + i] = 1
                spec = {"species": [{"label": LABELS[s], "D": DIFF[s]} for s in range(nsp)], "reactions": reactions,
                        "envs": ["c", "w"], "space": space, "state": state}
                if chem:
                    spec["chemostats"] = chem
                if variant in ("chemostat-mid", "chemostat-first") and nsp == 3:
                    # the same system with its species LISTED in another order: the chemostated species C sits between
                    # (resp. before) the species the reactions couple
                    order = [0, 2, 1] if variant == "chemostat-mid" else [2, 0, 1]
                    spec["species"] = [spec["species"][q] for q in order]
                    spec["state"] = [v for q in order for v in state[q * n:(q + 1) * n]]
                    spec["chemostats"] = [v for q in order for v in chem[q * n:(q + 1) * n]]
                yield {"net": netname, "space": spname, "variant": variant, "spec": spec, "seeds": seeds}


def laws(spec):
    """Integer conservation vectors over species that are chemostated nowhere."""
    ns = len(spec["species"])
    labels = [s["label"] for s in spec["species"]]
    n = ratelaw.ncells(spec["space"])
    cols = []
    for r in spec["reactions"]:
        a = ratelaw.side_coeffs(r["eq"][0], labels)
        b = ratelaw.side_coeffs(r["eq"][1], labels)
        cols.append([y - x for x, y in zip(a, b)])
    chem = spec.get("chemostats") or [0] * (ns * n)
    for s in range(ns):
        if any(chem[s * n + i] for i in range(n)):
            e = [0] * ns
            e[s] = 1
            cols.append(e)
    S = [[c[s] for c in cols] for s in range(ns)]
    return nullspace.left_nullspace(S)


def run_one(spec, kind, seed, dt, isp, max_steps):
    sc = {"system": spec, "t_sample": [0], "policy": "on_iteration", "seed": seed, "isp": isp,
          "time_step": dt, "t_max": (max_steps - 0.5) * dt if kind != "gillespie" else 0.25}
    traj, nit = eng.simulate(kind, models.build_script(sc), max_iter=max_steps + 2)
    return models.traj_arrays(traj)


def check_case(case):
    out = []
    spec = case["spec"]
    ns = len(spec["species"])
    n = ratelaw.ncells(spec["space"])
    try:
        cs = laws(spec)
    except AssertionError:
        return [("C02:checker:nullspace", "null-space routine failed its own re-assertion")]
    stats = {"samples": 0, "changed_runs": 0, "negative_samples": 0, "runs": 0}
    runs = []
    for dt in (2.0 ** -6, 2.0 ** -3):
        runs.append(("euler", case["seeds"][0], dt, "auto"))
        for sd in case["seeds"]:
            runs.append(("tauleap", sd, dt, "none" if sd % 2 == 0 else "auto"))
    for sd in case["seeds"]:
        runs.append(("gillespie", sd, 2.0 ** -6, "none" if sd % 2 == 0 else "auto"))
    only = case.get("only_run")
    for (kind, sd, dt, isp) in runs:
        if only and [kind, sd, dt, isp] != only:
            continue
        spec_run = spec
        if isp == "auto" and kind != "euler":
            # a real-valued (fractional) initial state exercises the default redistribution
            spec_run = dict(spec)
            spec_run["state"] = [v + 0.25 * ((q % 3) + 1) for q, v in enumerate(spec["state"])]
        try:
            t, d = run_one(spec_run, kind, sd, dt, isp, 40 if dt > 0.1 else 200)
        except Exception as e:
            out.append(("C02:%s:unexpected-exception" % kind, "%s: %s" % (type(e).__name__, e)))
            continue
        stats["runs"] += 1
        stats["samples"] += len(d)
        if len(d) > 1 and any(d[k] != d[0] for k in range(1, len(d))):
            stats["changed_runs"] += 1
        if not d:
            out.append(("C02:%s:no-sample" % kind, "no sample recorded"))
            continue
        base = [sum(c[s] * sum(d[0][s * n:(s + 1) * n]) for s in range(ns)) for c in cs]
        bad = False
        for k, rec in enumerate(d):
            if kind == "euler" and any((v != v) or abs(v) > 1e100 for v in rec):
                # explicit Euler with a step beyond its stability limit diverges (inf - inf = nan): numerics of the
                # method, not a conservation defect; the run is judged up to this sample and the truncation counted
                stats["diverged_euler_runs"] = stats.get("diverged_euler_runs", 0) + 1
                break
            if any(v < 0 for v in rec):
                stats["negative_samples"] += 1
            for ci, c in enumerate(cs):
                tot = sum(c[s] * sum(rec[s * n:(s + 1) * n]) for s in range(ns))
                if kind == "euler":
                    scale = sum(abs(c[s]) * sum(abs(v) for v in rec[s * n:(s + 1) * n]) for s in range(ns))
                    ok = abs(tot - base[ci]) <= 1e-9 * scale + 1e-300
                else:
                    ok = (tot == base[ci])
                if not ok:
                    out.append(("C02:%s:%s:law-broken" % (kind, "diffusion-only" if not spec["reactions"] else "reactions"),
                                "net %s space %s seed %d dt %g isp %s: conserved combination %r has total %.17g in sample %d "
                                "but %.17g in sample 0" % (case["net"], case["space"], sd, dt, isp, c, tot, k, base[ci])))
                    case_hint = [kind, sd, dt, isp]
                    case.setdefault("failing_runs", []).append(case_hint)
                    bad = True
                    break
            if bad:
                break
    case["_stats"] = stats
    return out


_CASES = None


def _work(job):
    lo, hi = job
    acc = core.Acc()
    for case in _CASES[lo:hi]:
        res = check_case(case)
        st = case.pop("_stats", {"samples": 0, "changed_runs": 0, "negative_samples": 0, "runs": 0})
        acc.add(states=st["samples"], transitions=max(st["samples"] - st["runs"], 0), traces=st["runs"],
                evaluations=st["samples"], nontrivial=st["changed_runs"])
        acc.count("runs", st["runs"])
        acc.count("runs_in_which_the_state_changed", st["changed_runs"])
        acc.count("samples_with_a_negative_entry(tau-leap)", st["negative_samples"])
        acc.count("euler_runs_truncated_at_divergence(step beyond stability limit)", st.get("diverged_euler_runs", 0))
        acc.count("systems")
        for key, what in res:
            acc.violation(key, what, case)
    if lo == 0:
        acc.sample({k: v for k, v in _CASES[0].items() if k != "seeds"})
    return acc.pack()


def run(ctx):
    global _CASES
    _CASES = list(gen_cases(ctx.tier, ctx.seed))
    eng.so_path("plain")
    jobs = pool.chunks(len(_CASES), 2)
    res = pool.pmap(_work, jobs, timeout=900)
    done = 0
    for job, r in zip(jobs, res):
        if isinstance(r, pool.Crash):
            ctx.violation("C02:engine-or-checker:worker-%s" % r.kind, r.detail, {"job": list(job), "first_case": _CASES[job[0]]})
            continue
        core.merge(ctx, r)
        done += job[1] - job[0]
    ctx.subspace("9 networks x grid shapes x boundary combinations (+ wall environment) and 3 graphs (isolated node, parallel "
                 "edges, self-loop, 5-cycle) x {plain, chemostated species} x 3 engines x dt in {2^-6, 2^-3} x seed window; "
                 "every recorded sample is a checked state", len(_CASES), done, exhaustive=(done == len(_CASES)))
    ctx.rule("states = recorded samples checked against every conservation vector; traces = engine runs; non-trivial = runs "
             "in which the state actually changed (a reaction fired or a molecule moved)")
    ctx.assume("exact integer null space (re-asserted c.S=0); seed window [1000*VERIF_SEED, +4 quick / +32 thorough); "
               "run length <= 200 recorded steps")


def replay(case):
    return check_case(case)
