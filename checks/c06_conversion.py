"""C06 — unit conversion is exact SI scaling and composes.

E1 bounded-exhaustive enumeration over unit-system pairs/triples x dimension vectors x target forms on
the real UnitValue.convert / UnitArray.convert, against exact rational arithmetic (mc/ref/si.py).
"""
import itertools
import math
from fractions import Fraction as F

import numpy as np

from mc import core, pool, uq
from mc.ref import si

core.setup_paths()
from strengths.units import UnitValue, UnitArray, Units, UnitsSystem  # noqa: E402

TOL = 1e-12
VALS = [3.7, -0.125]
FORMS = ("UnitsSystem", "dict", "partial-dict", "Units", "UnitValue", "str")

# carriers of the numbers of an array quantity: the same numbers handed over in every "array of numbers" form
CARRIER_FLOATS = [0.1, 0.2, 0.3, 1234.567]          # not dyadic: a product rounded to a narrow float type is visibly wrong
CARRIER_INTS = [3, 41, 200]                         # integral, fits uint8
CARRIERS = ("list", "tuple", "float64", "float32", "float16", "int64", "int32", "uint8", "intlist")
ROUTES = ("ctor", "value=", "set_value")
SETAT_VALS = [7.5, 3]                               # a float and a Python int as the value of the UnitValue given to set_at


def _carrier(name):
    """(the carrier object, [the double value of each item it holds])."""
    if name == "list":
        c = list(CARRIER_FLOATS)
    elif name == "tuple":
        c = tuple(CARRIER_FLOATS)
    elif name in ("float64", "float32", "float16"):
        c = np.array(CARRIER_FLOATS, dtype=getattr(np, name))
    elif name in ("int64", "int32", "uint8"):
        c = np.array(CARRIER_INTS, dtype=getattr(np, name))
    elif name == "intlist":
        c = list(CARRIER_INTS)
    else:
        raise ValueError(name)
    return c, [float(x) for x in c]


# ways of obtaining a UnitsSystem object that READS as the system t: written directly, or edited through its public setters
SYS_HISTS = ("direct", "attr", "item", "from-other-attr", "from-other-item", "edit-space", "edit-time", "edit-quantity",
             "copy-of-edited", "edit-of-copy", "via-units-sys")
SYS_ROLES = ("target-system", "target-units", "source")
_SYS_KEYS = ("space", "time", "quantity")


def _sys_by_history(hist, t):
    OTHER, OTHER2 = si.MIXED[1], si.MIXED[5]           # (km, h, kmol), (nm, µs, pmol)
    if hist == "direct":
        return UnitsSystem(space=t[0], time=t[1], quantity=t[2])
    if hist in ("attr", "copy-of-edited", "from-other-attr"):
        us = UnitsSystem() if hist != "from-other-attr" else uq.mk_sys(OTHER)
        us.space = t[0]
        us.time = t[1]
        us.quantity = t[2]
        return us.copy() if hist == "copy-of-edited" else us
    if hist in ("item", "from-other-item", "edit-of-copy"):
        us = UnitsSystem() if hist == "item" else (uq.mk_sys(OTHER) if hist == "from-other-item" else uq.mk_sys(OTHER).copy())
        for k, v in zip(_SYS_KEYS, t):
            us[k] = v
        return us
    if hist.startswith("edit-"):
        k = _SYS_KEYS.index(hist[5:])
        start = list(t)
        start[k] = OTHER[k] if OTHER[k] != t[k] else OTHER2[k]
        us = uq.mk_sys(tuple(start))
        setattr(us, _SYS_KEYS[k], t[k])
        return us
    if hist == "via-units-sys":
        u = Units(uq.mk_sys(OTHER), uq.mk_dim((1, 1, 1)))
        u.sys.space = t[0]
        u.sys["time"] = t[1]
        u.sys.quantity = t[2]
        return u.sys
    raise ValueError(hist)


def _cmp_values(tag, got_vals, exact, out, what):
    """got_vals (numbers) against exact (Fractions), relative TOL; one violation at most."""
    if len(got_vals) != len(exact):
        out.append(("C06:%s:length-changed" % tag, "%s: %d items -> %d" % (what, len(exact), len(got_vals))))
        return False
    for pos, (g, e) in enumerate(zip(got_vals, exact)):
        if isinstance(g, float) and not math.isfinite(g):
            err = float("inf")
        elif e == 0:
            err = 0.0 if g == 0 else float("inf")
        else:
            err = float(abs(F(g) / e - 1))
        if not err <= TOL:
            out.append(("C06:%s:value" % tag, "%s: item %d is %.17g, value x exact factor is %.17g (relative %.3e > 1e-12)"
                        % (what, pos, si.to_float(g) if isinstance(g, F) else g, si.to_float(e), err)))
            return False
    return True


def _target(form, dst, dim):
    if form == "UnitsSystem":
        return uq.mk_sys(dst)
    if form == "dict":
        return uq.sysdict(dst)
    if form == "partial-dict":
        # components equal to the documented defaults (µm, s, molecule) are omitted
        return {k: v for k, v, d in zip(("space", "time", "quantity"), dst, si.DEFAULT) if v != d}
    if form == "Units":
        return uq.mk_units(dst, dim)
    if form == "UnitValue":
        return uq.mk_uv(1.0, dst, dim)
    if form == "str":
        return si.units_string(dst, dim)
    raise ValueError(form)


def _mk(kind, src, dim):
    if kind == "scalar":
        return uq.mk_uv(VALS[0], src, dim)
    return uq.mk_ua(VALS, src, dim)


def _values(q):
    return [q.value] if isinstance(q, UnitValue) else [float(x) for x in q.value]


def _check_result(tag, q0, got, dst, dim, out, case, exact_identity=False):
    """got must be the same physical quantity as q0, expressed in dst for every non-zero exponent."""
    if type(got) is not type(q0):
        out.append(("C06:%s:result-type" % tag, "convert returned %s for a %s" % (type(got).__name__, type(q0).__name__)))
        return
    gdim = uq.dim_of(got.units)
    if gdim != tuple(dim):
        out.append(("C06:%s:dimension-changed" % tag, "dimension %s became %s" % (tuple(dim), gdim)))
        return
    gsys = uq.sys_of(got.units)
    for i in range(3):
        if dim[i] != 0 and gsys[i] != dst[i]:
            out.append(("C06:%s:wrong-target-unit" % tag, "result is in %s, requested %s" % (gsys, tuple(dst))))
            return
    a = uq.si_value(q0)
    b = uq.si_value(got)
    if not isinstance(a, list):
        a, b = [a], [b]
    if len(a) != len(b):
        out.append(("C06:%s:length-changed" % tag, "array length %d -> %d" % (len(a), len(b))))
        return
    for x, y in zip(a, b):
        err = float(abs(y / x - 1)) if x != 0 else (0.0 if y == 0 else float("inf"))
        if not err <= TOL:
            out.append(("C06:%s:value" % tag,
                        "SI value changes by relative %.3e (> 1e-12): %s -> %s" % (err, float(x), float(y))))
            return
    if exact_identity and _values(got) != _values(q0):
        out.append(("C06:%s:identity-not-exact" % tag, "%r -> %r" % (_values(q0), _values(got))))


def check_case(case):
    """One case; returns [(key, what)]."""
    return _check(case, [])


def _check(case, notes):
    """One case; returns [(key, what)]; names of counters to bump are appended to notes."""
    out = []
    sub = case["sub"]
    try:
        if sub in ("pairs", "base", "cube", "forms"):
            src, dst, dim = tuple(case["src"]), tuple(case["dst"]), tuple(case["dim"])
            q = _mk(case["kind"], src, dim)
            before = (_values(q), uq.sys_of(q.units), uq.dim_of(q.units))
            if case["form"] == "partial-dict":
                # something else in the process has just used a system that is non-default in every component: the omitted
                # keys of the partial dictionary must still mean the documented defaults
                q.convert(uq.sysdict(si.MIXED[1]))
                UnitValue(1.0, si.units_string(si.MIXED[2], (1, 1, 1)))
            got = q.convert(_target(case["form"], dst, dim))
            _check_result(sub + ":" + case["form"] + ":" + case["kind"], q, got, dst, dim, out, case,
                          exact_identity=(src == dst))
            if (_values(q), uq.sys_of(q.units), uq.dim_of(q.units)) != before:
                out.append(("C06:%s:operand-mutated" % sub, "convert changed its operand"))
        elif sub == "compose":
            a, b, c, dim = tuple(case["a"]), tuple(case["b"]), tuple(case["c"]), tuple(case["dim"])
            q = _mk(case["kind"], a, dim)
            direct = q.convert(uq.mk_sys(c))
            via = q.convert(uq.mk_sys(b)).convert(uq.mk_sys(c))
            _check_result("compose:direct", q, direct, c, dim, out, case)
            _check_result("compose:via", q, via, c, dim, out, case)
            back = q.convert(uq.mk_sys(b)).convert(uq.mk_sys(a))
            _check_result("compose:there-and-back", q, back, a, dim, out, case)
        elif sub == "family":
            sym, e = case["sym"], case["e"]
            text = sym if e == 1 else "%s%d" % (sym, e)
            sc, d1 = si.symbol_scale_dim(sym)
            dim = tuple(x * e for x in d1)
            exact = F(VALS[0]) * sc ** e
            for ctor in ("UnitValue", "UnitArray"):
                q = UnitValue(VALS[0], text) if ctor == "UnitValue" else UnitArray([VALS[0]], text)
                if uq.dim_of(q.units) != dim:
                    out.append(("C06:family:dimension", "%r parsed with dimension %s, expected %s"
                                % (text, uq.dim_of(q.units), dim)))
                    continue
                v = uq.si_value(q)
                v = v if not isinstance(v, list) else v[0]
                if not float(abs(v / exact - 1)) <= TOL:
                    out.append(("C06:family:si-meaning", "1 %s means %.17g SI, expected %.17g"
                                % (text, float(v / F(VALS[0])), float(sc ** e))))
                # and conversion into SI base units through a string target
                tgt = si.units_string(("m", "s", "mol"), dim)
                got = q.convert(tgt)
                _check_result("family:convert", q, got, ("m", "s", "mol"), dim, out, case)
        elif sub == "items":
            dst, dim = tuple(case["dst"]), tuple(case["dim"])
            ITEMS_ = [("own", None), ("f1", ("km", "h", "kmol")), ("f2", ("nm", "µs", "pmol")), ("num", None), ("str", ("cm", "min", "mmol"))]
            lst, exact = [], []
            for pos, ii in enumerate(case["items"]):
                kind, sy = ITEMS_[ii]
                v = [3.7, 41.0, 0.125][pos]
                if kind == "own":
                    lst.append(uq.mk_uv(v, dst, dim)); exact.append(F(v) * si.si_scale(dst, dim))
                elif kind == "num":
                    lst.append(v); exact.append(F(v) * si.si_scale(dst, dim))
                elif kind == "str":
                    lst.append("%r %s" % (v, si.units_string(sy, dim))); exact.append(F(v) * si.si_scale(sy, dim))
                else:
                    lst.append(uq.mk_uv(v, sy, dim)); exact.append(F(v) * si.si_scale(sy, dim))
            if any(isinstance(x, str) for x in lst):
                return out          # quantity TEXT inside a list is not claimed (fails on the pinned tree: numpy str_ items; outside C06)
            arr = UnitArray(lst, uq.mk_units(dst, dim))
            got = uq.si_value(arr)
            for pos, (g, e) in enumerate(zip(got, exact)):
                if not float(abs(g / e - 1)) <= TOL:
                    out.append(("C06:items:value", "UnitArray(%r, units of %r): item %d stored as %.17g SI, its own value is %.17g SI"
                                % ([str(x) for x in lst], dst, pos, float(g), float(e))))
                    break
        elif sub == "history":
            src, dst, dst2, dim = tuple(case["src"]), tuple(case["dst"]), tuple(case["dst2"]), tuple(case["dim"])
            q = uq.mk_ua([3.7, -0.125, 41.0], src, dim)
            first = q.convert(uq.mk_sys(dst))
            _check_result("history:first", q, first, dst, dim, out, case)
            w = case["write"]
            if w == "set_at":
                q.set_at(1, uq.mk_uv(7.5, src, dim))
            elif w == "value[i]=":
                q.value[1] = 7.5
            elif w == "value=":
                q.value = [3.7, 7.5, 41.0]
            elif w == "set_value":
                q.set_value([3.7, 7.5, 41.0])
            cur = uq.mk_ua([float(v) for v in q.value], uq.sys_of(q.units), uq.dim_of(q.units))   # fresh object, current content
            if w != "none" and [float(v) for v in q.value] != [3.7, 7.5, 41.0]:
                out.append(("C06:history:%s:write-not-applied" % w, "array holds %r after the write" % ([float(v) for v in q.value],)))
            for tgt, tag in ((dst, "same-target-again"), (dst2, "other-target")):
                got = q.convert(uq.mk_sys(tgt))
                before = len(out)
                _check_result("history:%s:%s" % (w, tag), cur, got, tgt, dim, out, case)
                if len(out) == before:
                    ref = cur.convert(uq.mk_sys(tgt))
                    if [float(v) for v in ref.value] != [float(v) for v in got.value]:
                        out.append(("C06:history:%s:%s:differs-from-fresh-object" % (w, tag), "%r vs %r" % (list(got.value), list(ref.value))))
        elif sub == "famprod":
            a = UnitValue(VALS[0], case["text"])
            b = UnitValue(VALS[0], case["equals"])
            if uq.dim_of(a.units) != uq.dim_of(b.units):
                out.append(("C06:family-product:dimension", "%r has dimension %s, %r has %s" % (case["text"], uq.dim_of(a.units), case["equals"], uq.dim_of(b.units))))
            else:
                x, y = uq.si_value(a), uq.si_value(b)
                if not float(abs(x / y - 1)) <= TOL:
                    out.append(("C06:family-product:si-meaning", "1 %s = %.17g SI but 1 %s = %.17g SI" % (case["text"], float(x / F(VALS[0])), case["equals"], float(y / F(VALS[0])))))
                got = a.convert(b.units)
                _check_result("family-product:convert", a, got, uq.sys_of(b.units), uq.dim_of(b.units), out, case)
        elif sub in ("ctor", "ctor_mismatch"):
            # the converting CONSTRUCTOR: UnitValue(<quantity text or UnitValue>, <target units>[, convert=False]) and
            # UnitArray(<UnitArray>, <target units>[, convert=False]); the target is a units string or a Units object
            src, dst, dim = tuple(case["src"]), tuple(case["dst"]), tuple(case["dim"])
            d2 = tuple(case["dim2"]) if sub == "ctor_mismatch" else dim
            cls, given, form, conv = case["cls"], case["given"], case["form"], case["conv"]
            q0 = uq.mk_uv(VALS[0], src, dim) if cls == "UnitValue" else uq.mk_ua(VALS, src, dim)
            arg = "%r %s" % (VALS[0], si.units_string(src, dim)) if given == "text" else q0
            tgt = _target(form, dst, d2)
            kw = {} if conv == "default" else {"convert": False}
            before = (_values(q0), uq.sys_of(q0.units), uq.dim_of(q0.units))
            tag = "%s:%s:%s:%s:convert-%s" % (sub, cls, given, form, conv)
            if sub == "ctor":
                got = UnitValue(arg, tgt, **kw) if cls == "UnitValue" else UnitArray(arg, tgt, **kw)
                if conv == "default":
                    _check_result(tag, q0, got, dst, dim, out, case, exact_identity=(src == dst))
                else:
                    # not converted: whatever units the result reports, it is still the quantity given
                    _check_result(tag, q0, got, uq.sys_of(got.units), dim, out, case)
            else:
                try:
                    got = UnitValue(arg, tgt, **kw) if cls == "UnitValue" else UnitArray(arg, tgt, **kw)
                except Exception:
                    notes.append("ctor_mismatch_raised")
                else:
                    out.append(("C06:%s:accepted" % tag, "%s(%s, %s%s) of dimension %s with target units of dimension %s returned %s instead of raising"
                                % (cls, repr(arg) if given == "text" else str(arg), "%r" % (tgt,) if form == "str" else "Units(%r)" % str(tgt),
                                   "" if conv == "default" else ", convert=False", dim, d2, got)))
            if (_values(q0), uq.sys_of(q0.units), uq.dim_of(q0.units)) != before:
                out.append(("C06:%s:operand-mutated" % tag, "the constructor changed the quantity it was given"))
        elif sub in ("itemlist", "itemlist_mismatch"):
            # an array built from a LIST mixing a bare number, a UnitValue of the array's dimension in a foreign system (same-dimension
            # sub-space only; two bare numbers in the mismatch sub-space) and ONE UnitValue item (value 7.5, system src, dimension dim2)
            # at position pos; dst / dim = units of the array
            src, dst, dim, pos, route = tuple(case["src"]), tuple(case["dst"]), tuple(case["dim"]), case["pos"], case["route"]
            d2 = tuple(case["dim2"]) if sub == "itemlist_mismatch" else dim
            F1 = ("km", "h", "kmol")
            item = uq.mk_uv(7.5, src, d2)
            if sub == "itemlist":
                lst = [3.7, uq.mk_uv(41.0, F1, dim)]
                exact = [F(3.7) * si.si_scale(dst, dim), F(41.0) * si.si_scale(F1, dim)]
            else:
                lst, exact = [3.7, 41.0], [F(0), F(0)]          # bare numbers only beside the item (exact is unused: the call must raise)
            lst.insert(pos, item)
            exact.insert(pos, F(7.5) * si.si_scale(src, dim))
            units = uq.mk_units(dst, dim)

            def build():
                if route == "ctor":
                    return UnitArray(lst, units)
                q_ = UnitArray([0.0] * len(lst), units)
                if route == "value=":
                    q_.value = lst
                elif route == "set_value":
                    q_.set_value(lst)
                else:
                    raise ValueError(route)
                return q_
            if sub == "itemlist":
                arr = build()
                tag = "itemlist:%s" % route
                if uq.sys_of(arr.units) != dst or uq.dim_of(arr.units) != dim:
                    out.append(("C06:%s:array-units-changed" % tag, "array in %s %s has units %s %s" % (dst, dim, uq.sys_of(arr.units), uq.dim_of(arr.units))))
                    return out
                if not _cmp_values(tag, uq.si_value(arr), exact, out,
                                   "UnitArray from %r in %s (SI values)" % ([str(x) for x in lst], si.units_string(dst, dim))):
                    return out
                vals = [float(x) for x in arr.value]
                if vals[0 if pos != 0 else 1] != 3.7 or (src == dst and vals[pos] != 7.5):
                    out.append(("C06:%s:identity-not-exact" % tag, "%r stored as %r" % ([str(x) for x in lst], vals)))
                if (item.value, uq.sys_of(item.units), uq.dim_of(item.units)) != (7.5, src, d2):
                    out.append(("C06:%s:operand-mutated" % tag, "the UnitValue item was changed"))
            else:
                try:
                    arr = build()
                except Exception:
                    notes.append("itemlist_mismatch_raised")
                else:
                    out.append(("C06:itemlist-mismatch:%s:%s:accepted" % (route, "same-system" if src == dst else "other-system"),
                                "array in %r built from %r (item %d has dimension %s, the array %s) holds %r instead of raising"
                                % (si.units_string(dst, dim), [str(x) for x in lst], pos, d2, dim, [float(x) for x in arr.value])))
        elif sub == "syshist":
            # a UnitsSystem obtained by constructor-then-setter edits (hist) that reads as the system t must convert exactly like t
            # written directly, as conversion target (UnitsSystem or Units built on it) and as the system of the quantity converted
            src, dst, dim = tuple(case["src"]), tuple(case["dst"]), tuple(case["dim"])
            kind, role, hist = case["kind"], case["role"], case["hist"]
            t = src if role == "source" else dst
            us = _sys_by_history(hist, t)
            tag = "syshist:%s:%s:%s" % (hist, role, kind)
            if uq.sys_of(Units(us, uq.mk_dim(dim))) != t:
                out.append(("C06:%s:system-reads-differently" % tag, "the edited system reads %s, expected %s" % (us, t)))
                return out
            ref = _mk(kind, src, dim)                     # the quantity, in a system written directly
            if role == "source":
                vals = VALS[0] if kind == "scalar" else list(VALS)
                q = (UnitValue if kind == "scalar" else UnitArray)(vals, Units(us, uq.mk_dim(dim)))
                got = q.convert(uq.mk_sys(dst))
            elif role == "target-system":
                got = ref.convert(us)
            else:
                got = ref.convert(Units(us, uq.mk_dim(dim)))
            before = len(out)
            _check_result(tag, ref, got, dst, dim, out, case, exact_identity=(src == dst))
            if len(out) == before:
                direct = ref.convert(uq.mk_sys(dst))
                if _values(direct) != _values(got):
                    out.append(("C06:%s:differs-from-direct" % tag, "%r with the edited system, %r with the system written directly"
                                % (_values(got), _values(direct))))
            if uq.sys_of(Units(us, uq.mk_dim(dim))) != t:
                out.append(("C06:%s:system-mutated" % tag, "the units system reads %s after the conversion" % us))
        elif sub == "carrier":
            src, dst, dim = tuple(case["src"]), tuple(case["dst"]), tuple(case["dim"])
            car, route = case["carrier"], case["route"]
            c, stored = _carrier(car)
            units = uq.mk_units(src, dim)
            try:
                if route == "ctor":
                    q = UnitArray(c, units)
                elif route == "value=":
                    q = UnitArray([0.0] * len(stored), units)
                    q.value = c
                elif route == "set_value":
                    q = UnitArray([0.0] * len(stored), units)
                    q.set_value(c)
                else:
                    raise ValueError(route)
            except Exception:
                notes.append("carrier_rejected:%s:%s" % (car, route))      # a refused carrier is counted, not reported
                return out
            notes.append("carrier_accepted")
            tag = "carrier:%s:%s" % (car, route)
            if uq.sys_of(q.units) != src or uq.dim_of(q.units) != dim:
                out.append(("C06:%s:units-changed" % tag, "array built in %s %s has units %s %s" % (src, dim, uq.sys_of(q.units), uq.dim_of(q.units))))
                return out
            sc_src = si.si_scale(src, dim)
            if not _cmp_values(tag + ":stored", [F(float(x)) * sc_src for x in q.value], [F(v) * sc_src for v in stored], out,
                               "array built from a %s carrier" % car):
                return out
            f = si.factor(src, dst, dim)
            got = q.convert(uq.mk_sys(dst))
            if type(got) is not UnitArray:
                out.append(("C06:%s:result-type" % tag, "convert returned %s" % type(got).__name__))
                return out
            if uq.dim_of(got.units) != dim:
                out.append(("C06:%s:dimension-changed" % tag, "dimension %s became %s" % (dim, uq.dim_of(got.units))))
                return out
            if any(dim[i] != 0 and uq.sys_of(got.units)[i] != dst[i] for i in range(3)):
                out.append(("C06:%s:wrong-target-unit" % tag, "result is in %s, requested %s" % (uq.sys_of(got.units), dst)))
                return out
            # expressed in the units it reports, the result is (the double value of each item handed over) x exact factor
            sc_got = si.si_scale(uq.sys_of(got.units), dim)
            if not _cmp_values(tag + ":convert", [F(float(x)) * sc_got if math.isfinite(float(x)) else float(x) for x in got.value],
                               [F(v) * sc_src for v in stored], out,
                               "%s carrier %r in %s converted to %s (SI values)" % (car, stored, src, dst)):
                return out
            if src == dst and [float(x) for x in got.value] != stored:
                out.append(("C06:%s:identity-not-exact" % tag, "%r -> %r" % (stored, [float(x) for x in got.value])))
                return out
            back = got.convert(uq.mk_sys(src))
            sc_back = si.si_scale(uq.sys_of(back.units), dim)
            _cmp_values(tag + ":there-and-back", [F(float(x)) * sc_back if math.isfinite(float(x)) else float(x) for x in back.value],
                        [F(v) * sc_src for v in stored], out, "%s carrier %r in %s converted to %s and back (SI values)" % (car, stored, src, dst))
        elif sub == "set_at":
            # src = units system of the UnitValue given, dst = units system of the array
            src, dst, dim, i = tuple(case["src"]), tuple(case["dst"]), tuple(case["dim"]), case["i"]
            v = SETAT_VALS[case["v"]]
            base = [3.7, -0.125, 41.0]
            q = uq.mk_ua(base, dst, dim)
            item = uq.mk_uv(v, src, dim)
            q.set_at(i, item)
            if uq.sys_of(q.units) != dst or uq.dim_of(q.units) != dim:
                out.append(("C06:set_at:array-units-changed", "array in %s %s has units %s %s after set_at" % (dst, dim, uq.sys_of(q.units), uq.dim_of(q.units))))
                return out
            now = [float(x) for x in q.value]
            if len(now) != len(base):
                out.append(("C06:set_at:length-changed", "%d items -> %d" % (len(base), len(now))))
                return out
            if [x for j, x in enumerate(now) if j != i] != [x for j, x in enumerate(base) if j != i]:
                out.append(("C06:set_at:other-item-changed", "set_at(%d, ...) on %r left %r" % (i, base, now)))
                return out
            exact = F(v) * si.factor(src, dst, dim)
            if not _cmp_values("set_at", [now[i]], [exact], out,
                               "set_at(%d, %r %s) on an array in %s" % (i, v, si.units_string(src, dim), si.units_string(dst, dim))):
                return out
            if src == dst and now[i] != v:
                out.append(("C06:set_at:identity-not-exact", "%r stored as %r" % (v, now[i])))
                return out
            if (item.value, uq.sys_of(item.units), uq.dim_of(item.units)) != (v, src, dim):
                out.append(("C06:set_at:operand-mutated", "set_at changed the UnitValue it was given"))
            # reading the item back: the same quantity, in the units of the array
            _check_result("set_at:get_at", item, q.get_at(i), dst, dim, out, case, exact_identity=(src == dst))
            for j in range(len(base)):
                if j != i:
                    g = q.get_at(j)
                    if type(g) is not UnitValue or g.value != base[j] or uq.dim_of(g.units) != dim or \
                            any(dim[k] != 0 and uq.sys_of(g.units)[k] != dst[k] for k in range(3)):
                        out.append(("C06:set_at:get_at:other-item", "get_at(%d) = %s, the array holds %r %s" % (j, g, base[j], si.units_string(dst, dim))))
                        break
        elif sub == "set_at_mismatch":
            src, dst = tuple(case["src"]), tuple(case["dst"])
            d1, d2 = tuple(case["dim"]), tuple(case["dim2"])
            q = uq.mk_ua([3.7, -0.125, 41.0], dst, d1)
            item = uq.mk_uv(7.5, src, d2)
            try:
                q.set_at(1, item)
            except Exception:
                pass
            else:
                out.append(("C06:set_at:mismatch:accepted", "set_at of a UnitValue of dimension %s into an array of dimension %s did not raise (array now %r)"
                            % (d2, d1, [float(x) for x in q.value])))
        elif sub == "mismatch":
            src, dst = tuple(case["src"]), tuple(case["dst"])
            d1, d2 = tuple(case["dim"]), tuple(case["dim2"])
            q = _mk(case["kind"], src, d1)
            tgt = _target(case["form"], dst, d2)
            try:
                got = q.convert(tgt)
            except Exception:
                got = None
            else:
                out.append(("C06:mismatch:%s:%s:accepted" % (case["form"], case["kind"]),
                            "conversion of dimension %s to %s returned %s instead of raising" % (d1, d2, got)))
        else:
            raise ValueError(sub)
    except Exception as e:  # an exception where a value is specified
        out.append(("C06:%s:unexpected-exception" % sub, "%s: %s" % (type(e).__name__, e)))
    return out


# ---- enumeration ---------------------------------------------------------------------------------

def _spaces(tier):
    S36 = si.systems36()
    ALL = si.ALL_SYSTEMS
    GEN = (1, -2, 3)
    sp = []
    if tier == "thorough":
        sp.append(("pairs: all 1100x1100 ordered system pairs x dim (1,-2,3), scalar, UnitsSystem target",
                   lambda: ({"sub": "pairs", "src": a, "dst": b, "dim": GEN, "kind": "scalar", "form": "UnitsSystem"}
                            for a in ALL for b in ALL), len(ALL) ** 2))
    else:
        def gen():
            for a in S36:
                for b in S36:
                    yield {"sub": "pairs", "src": a, "dst": b, "dim": GEN, "kind": "scalar", "form": "UnitsSystem"}
            for a in ALL:
                yield {"sub": "pairs", "src": si.DEFAULT, "dst": a, "dim": GEN, "kind": "scalar", "form": "UnitsSystem"}
                yield {"sub": "pairs", "src": a, "dst": si.DEFAULT, "dim": GEN, "kind": "scalar", "form": "UnitsSystem"}
        sp.append(("pairs: 36x36 system pairs + default<->each of the 1100, dim (1,-2,3), scalar", gen,
                   36 * 36 + 2 * len(ALL)))

    def gen_base():
        for i, kind in enumerate(si.KINDS):
            syms = list(si.BASES[kind])
            for a in syms:
                for b in syms:
                    for e in range(-4, 5):
                        s = list(si.DEFAULT); d = list(si.DEFAULT); dim = [0, 0, 0]
                        s[i] = a; d[i] = b; dim[i] = e
                        yield {"sub": "base", "src": tuple(s), "dst": tuple(d), "dim": tuple(dim),
                               "kind": "scalar", "form": "UnitsSystem"}
    sp.append(("base: per base kind every ordered symbol pair x exponent -4..4", gen_base,
               (11 * 11 + 10 * 10 + 10 * 10) * 9))

    cube = si.cube(-2, 2) if tier == "thorough" else si.cube(-1, 1)

    def gen_cube():
        for a in S36:
            for b in S36:
                for dim in cube:
                    for kind in ("scalar", "array"):
                        yield {"sub": "cube", "src": a, "dst": b, "dim": dim, "kind": kind, "form": "UnitsSystem"}
    sp.append(("cube: 36x36 systems x dimension cube %d^3 x {scalar,array}" % round(len(cube) ** (1 / 3)),
               gen_cube, 36 * 36 * len(cube) * 2))

    AX = si.axis_systems() + [si.MIXED[0]]   # 30

    def gen_comp():
        for a in AX:
            for b in AX:
                for c in AX:
                    yield {"sub": "compose", "a": a, "b": b, "c": c, "dim": (2, -1, 1), "kind": "scalar"}
        for a in S36:
            for b in S36:
                yield {"sub": "compose", "a": a, "b": b, "c": a, "dim": (-3, 1, 2), "kind": "array"}
    sp.append(("compose: all triples of 30 systems (a->b->c vs a->c; there-and-back) + 36x36 round trips",
               gen_comp, 30 ** 3 + 36 * 36))

    def gen_family():
        for sym in list(si.LITRE) + list(si.MOLAR):
            for e in (-3, -2, -1, 1, 2, 3):
                yield {"sub": "family", "sym": sym, "e": e}
    sp.append(("family: 7 litre + 9 molar symbols x exponents -3..3 (SI meaning of the parsed text)",
               gen_family, 16 * 6))

    dims_f = [(1, 0, 0), (2, -1, 0), (-3, 0, 1), (0, 0, 0)]

    def gen_forms():
        for a in S36:
            for b in S36:
                for dim in dims_f:
                    for form in FORMS:
                        for kind in ("scalar", "array"):
                            yield {"sub": "forms", "src": a, "dst": b, "dim": dim, "kind": kind, "form": form}
    sp.append(("forms: 36x36 systems x 4 dimensions x 6 target forms (incl. partial units-system dictionaries) x {scalar,array}",
               gen_forms, 36 * 36 * len(dims_f) * len(FORMS) * 2))

    H6 = [si.DEFAULT, si.MIXED[0], si.MIXED[3], ("km", "h", "kmol"), ("nm", "µs", "pmol"), ("cm", "min", "mmol")]
    WRITES = ("set_at", "value[i]=", "value=", "set_value", "none")

    def gen_hist():
        for a in H6:
            for b in H6:
                for c in H6:
                    for dim in ((1, 0, 0), (2, -1, 1)):
                        for w in WRITES:
                            yield {"sub": "history", "src": a, "dst": b, "dst2": c, "dim": dim, "write": w}
    sp.append(("history: one array object converted to X, modified in place (set_at / element write / value setter / set_value / "
               "nothing), converted to X again and to Y: 6^3 system triples x 2 dimensions x 5 kinds of write", gen_hist,
               6 ** 3 * 2 * len(WRITES)))

    c1 = si.cube(-1, 1)

    def gen_mis():
        for d1 in c1:
            for d2 in c1:
                if d1 != d2:
                    for form in ("str", "Units", "UnitValue"):
                        for kind in ("scalar", "array"):
                            for (a, b) in ((si.MIXED[0], si.MIXED[3]), (si.DEFAULT, si.DEFAULT), (si.MIXED[0], si.MIXED[0])):
                                yield {"sub": "mismatch", "src": a, "dst": b, "dim": d1, "dim2": d2, "kind": kind, "form": form}
    sp.append(("mismatch: every ordered pair of different dimensions of {-1,0,1}^3 x 3 target forms x {scalar,array} x "
               "{different systems, same default system, same non-default system} must raise", gen_mis, 27 * 26 * 3 * 2 * 3))

    ITEMS = [("own", None), ("f1", ("km", "h", "kmol")), ("f2", ("nm", "µs", "pmol")), ("num", None), ("str", ("cm", "min", "mmol"))]

    def gen_items():
        # an array built from a LIST of items, each carrying its own units (or none): every ordered pair and triple of item kinds
        for tgt in (si.DEFAULT, si.MIXED[0]):
            for dim in ((1, 0, 0), (2, -1, 1)):
                for n in (2, 3):
                    for combo in itertools.product(range(len(ITEMS)), repeat=n):
                        yield {"sub": "items", "dst": tgt, "dim": dim, "items": list(combo)}
    sp.append(("array from a list of items carrying their own units: all ordered pairs and triples of {own system, 2 foreign systems, "
               "bare number, quantity text} x 2 target systems x 2 dimensions", gen_items, 2 * 2 * (5 ** 2 + 5 ** 3)))

    def gen_famprod():
        # molar x litre of the same space unit is an amount: "xM.L" = xmol, "xmol/L" = xM, "L/L" dimensionless ...
        for m in si.MOLAR:
            yield {"sub": "famprod", "text": "%s.L" % m, "equals": si.MOLAR[m]}
            yield {"sub": "famprod", "text": "L.%s" % m, "equals": si.MOLAR[m]}
            yield {"sub": "famprod", "text": "%s/L" % si.MOLAR[m], "equals": m}
            yield {"sub": "famprod", "text": "%s.dm3" % m, "equals": si.MOLAR[m]}
            yield {"sub": "famprod", "text": "%s2.L2" % m, "equals": "%s2" % si.MOLAR[m]}
        for l, b in si.LITRE.items():
            yield {"sub": "famprod", "text": "%s/%s2" % (l, b), "equals": b}
            yield {"sub": "famprod", "text": "%s.%s-3" % (l, b), "equals": ""}
        # '/' combined with a negative exponent: division by a negative power
        for a, b, eq in (("m", "s-1", "m.s"), ("km", "h-1", "km.h"), ("mol", "s-2", "mol.s2"), ("s-1", "µM-1", "s-1.µM"), ("m2", "m-1", "m3")):
            yield {"sub": "famprod", "text": "%s/%s" % (a, b), "equals": eq}
    sp.append(("family products: molar x litre = amount, amount / litre = molar, litre / area = length (same base unit twice in "
               "one text)", gen_famprod, 9 * 5 + 7 * 2 + 5))
    dims_c = [(1, 0, 0), (2, -1, 1)]

    def gen_carrier():
        for a in S36:
            for b in S36:
                for dim in dims_c:
                    for car in CARRIERS:
                        for route in ROUTES:
                            yield {"sub": "carrier", "src": a, "dst": b, "dim": dim, "carrier": car, "route": route}
    sp.append(("carriers: the numbers of an array quantity handed over as list / tuple / ndarray of float64, float32, float16, int64, "
               "int32, uint8 / list of ints, through the constructor, the value setter and set_value, converted (and back): "
               "36x36 systems x 2 dimensions x 9 carriers x 3 routes", gen_carrier, 36 * 36 * len(dims_c) * len(CARRIERS) * len(ROUTES)))

    dims_s = c1 if tier == "thorough" else [(1, 0, 0), (2, -1, 1), (0, -2, 0), (-3, 0, 1)]

    def gen_setat():
        for a in S36:
            for b in S36:
                for dim in dims_s:
                    for i in range(3):
                        for v in range(len(SETAT_VALS)):
                            yield {"sub": "set_at", "src": a, "dst": b, "dim": dim, "i": i, "v": v}
    sp.append(("set_at / get_at: implicit conversion of the element setter, UnitValue in each of 36 systems written into an array in "
               "each of 36 systems x %d dimensions x 3 positions x {float, int} value, read back with get_at" % len(dims_s),
               gen_setat, 36 * 36 * len(dims_s) * 3 * len(SETAT_VALS)))

    def gen_setat_mis():
        for d1 in c1:
            for d2 in c1:
                if d1 != d2:
                    for (a, b) in ((si.MIXED[0], si.MIXED[3]), (si.DEFAULT, si.DEFAULT), (si.MIXED[0], si.MIXED[0])):
                        yield {"sub": "set_at_mismatch", "src": a, "dst": b, "dim": d1, "dim2": d2}
    sp.append(("set_at mismatch: every ordered pair of different dimensions of {-1,0,1}^3 x {different systems, same default system, "
               "same non-default system} must raise", gen_setat_mis, 27 * 26 * 3))
    CTOR = [("UnitValue", "text"), ("UnitValue", "object"), ("UnitArray", "object")]

    def gen_ctor():
        for a in S36:
            for b in S36:
                for dim in dims_f:
                    for cls, given in CTOR:
                        for form in ("str", "Units"):
                            for conv in ("default", "False"):
                                yield {"sub": "ctor", "src": a, "dst": b, "dim": dim, "cls": cls, "given": given, "form": form, "conv": conv}
    sp.append(("constructor route: UnitValue(quantity text | UnitValue, target) and UnitArray(UnitArray, target), target a units string "
               "or a Units object, convert default / False: 36x36 systems x 4 dimensions x 3 x 2 x 2", gen_ctor,
               36 * 36 * len(dims_f) * len(CTOR) * 2 * 2))

    def gen_ctor_mis():
        for d1 in c1:
            for d2 in c1:
                if d1 != d2:
                    for cls, given in CTOR:
                        for form in ("str", "Units"):
                            for conv in ("default", "False"):
                                for (a, b) in ((si.MIXED[0], si.MIXED[3]), (si.DEFAULT, si.DEFAULT), (si.MIXED[0], si.MIXED[0])):
                                    yield {"sub": "ctor_mismatch", "src": a, "dst": b, "dim": d1, "dim2": d2, "cls": cls, "given": given,
                                           "form": form, "conv": conv}
    sp.append(("constructor mismatch: the same constructor calls with target units of a different dimension must raise: every ordered "
               "pair of different dimensions of {-1,0,1}^3 x 3 x 2 target forms x convert default / False x 3 system pairs", gen_ctor_mis,
               27 * 26 * len(CTOR) * 2 * 2 * 3))
    def gen_itemlist():
        for a in S36:
            for b in S36:
                for dim in dims_c:
                    for pos in range(3):
                        for route in ROUTES:
                            yield {"sub": "itemlist", "src": b, "dst": a, "dim": dim, "pos": pos, "route": route}
    sp.append(("item lists: array in each of 36 systems built (constructor, value setter, set_value) from a list mixing a bare number, a "
               "UnitValue in a foreign system and a UnitValue item in each of 36 systems (own included) at first / middle / last position, "
               "2 dimensions", gen_itemlist, 36 * 36 * len(dims_c) * 3 * len(ROUTES)))

    IM_ROUTES = ROUTES if tier == "thorough" else ("ctor",)
    IM_SMALL = [] if tier == "thorough" else H6

    def gen_itemlist_mis():
        # the item of another dimension is written in the SAME full units system as the array, or in another one
        for k, a in enumerate(S36):
            for b in (a, S36[(k + 1) % len(S36)]):
                for d1 in c1:
                    for d2 in c1:
                        if d1 != d2:
                            for pos in range(3):
                                for route in IM_ROUTES:
                                    yield {"sub": "itemlist_mismatch", "src": b, "dst": a, "dim": d1, "dim2": d2, "pos": pos, "route": route}
        for k, a in enumerate(IM_SMALL):
            for b in (a, IM_SMALL[(k + 1) % len(IM_SMALL)]):
                for d1 in c1:
                    for d2 in c1:
                        if d1 != d2:
                            for route in ("value=", "set_value"):
                                yield {"sub": "itemlist_mismatch", "src": b, "dst": a, "dim": d1, "dim2": d2, "pos": 1, "route": route}
    sp.append(("item lists mismatch: one UnitValue item of another dimension, written in the SAME units system as the array or in another "
               "one, must raise: 36 systems x {same, other} x every ordered pair of different dimensions of {-1,0,1}^3 x 3 positions x %s"
               % ("3 routes" if tier == "thorough" else "constructor, + 6 systems x {same, other} x the same dimension pairs x middle position x {value setter, set_value}"),
               gen_itemlist_mis, 36 * 2 * 27 * 26 * 3 * len(IM_ROUTES) + len(IM_SMALL) * 2 * 27 * 26 * 2))
    def gen_syshist():
        for t in S36:
            for o in H6:
                for dim in dims_c:
                    for hist in SYS_HISTS:
                        for role in SYS_ROLES:
                            for kind in ("scalar", "array"):
                                a, b = (t, o) if role == "source" else (o, t)
                                yield {"sub": "syshist", "src": a, "dst": b, "dim": dim, "kind": kind, "role": role, "hist": hist}
    sp.append(("units-system history: a UnitsSystem reading as each of 36 systems, written directly or obtained through its setters (attributes, "
               "item assignment, from the default / another system, one component, copy of an edited system, edit of a copy, through "
               "Units.sys) used as target system, inside target Units, or as the system of the quantity: x 6 other systems x 2 dimensions "
               "x 11 histories x 3 roles x {scalar,array}", gen_syshist, 36 * 6 * len(dims_c) * len(SYS_HISTS) * len(SYS_ROLES) * 2))
    return sp


_SPACES = None


def _work(job):
    si_, lo, hi = job
    name, gen, size = _SPACES[si_]
    acc = core.Acc()
    seen_nt = 0
    for case in itertools.islice(gen(), lo, hi):
        notes = []
        res = _check(case, notes)
        for n_ in notes:
            acc.count(n_)
        acc.add(states=1, transitions=1, traces=1, evaluations=1)
        nt = case.get("src") != case.get("dst") or case["sub"] in ("compose", "family", "mismatch", "famprod", "history", "items", "set_at_mismatch", "ctor_mismatch", "itemlist_mismatch")
        if nt:
            seen_nt += 1
        for key, what in res:
            acc.violation(key, what, case)
        if lo == 0 and acc.states in (1, 2):
            acc.sample(case)
    acc.add(nontrivial=seen_nt)
    return acc.pack()


def run(ctx):
    global _SPACES
    _SPACES = _spaces(ctx.tier)
    jobs = []
    for i, (name, gen, size) in enumerate(_SPACES):
        for lo, hi in pool.chunks(size, 5000):
            jobs.append((i, lo, hi))
    res = pool.pmap(_work, jobs, timeout=600)
    per = {}
    for job, r in zip(jobs, res):
        if isinstance(r, pool.Crash):
            ctx.violation("C06:checker:worker-%s" % r.kind, r.detail, {"job": job})
            continue
        core.merge(ctx, r)
        per[job[0]] = per.get(job[0], 0) + r["n"][0]
    for i, (name, gen, size) in enumerate(_SPACES):
        ctx.subspace(name, size, per.get(i, 0), exhaustive=(per.get(i, 0) == size))
    ctx.rule("every case of each listed sub-space is enumerated in fixed order on the real convert(); a case is "
             "non-trivial when source and target systems differ (or it is a composition / family / mismatch case); "
             "cases are distinct by construction (distinct tuples of the product)")
    ctx.assume("exact SI scales of mc/ref/si.py (documented symbol table); float(str) parsing of Python")


def replay(case):
    return check_case(case)
