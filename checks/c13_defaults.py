"""C13 - default state and chemostat map: density x volume, species-major layout; entry accessors.

E1: bounded-exhaustive enumeration of (network shape x space x unit-system roles x value forms) on the real
RDSystem constructor; every (species, cell) entry of RDSystem.state / RDSystem.chemostats is compared, in SI
and against exact rational arithmetic (mc/ref/defaults.py), with
    density(env(cell), else 'default', else 0) x volume(cell)      at index species*ncells + cell.
E2: every sequence of <= 2 set_state / set_chemostat calls over all entries of small systems followed by a
full read-back (frame condition on the raw arrays), regeneration after editing a species, and the
documented dict overrides of the defaults.
"""
import copy
import itertools
from fractions import Fraction as F

import numpy as np

from mc import core, pool, uq
from mc.ref import si
from mc.ref import defaults as D

core.setup_paths()
from strengths.units import UnitValue, UnitArray  # noqa: E402
from strengths.rdnetwork import Species, RDNetwork, Reaction  # noqa: E402
from strengths.rdgridspace import RDGridSpace  # noqa: E402
from strengths.rdgraphspace import RDGraphSpace, RDGraphSpaceNode  # noqa: E402
from strengths.rdsystem import RDSystem, rdsystem_from_dict, load_rdsystem  # noqa: E402
from strengths.rdspace import rdspace_from_dict  # noqa: E402
from strengths.coarsegrain import grid_to_graph  # noqa: E402

TOL = 1e-12
ENVS = ["cyt", "mem", "ext"]
# environment label lists per count; the first of each contains "" - the label of RDNetwork's DEFAULT
# environment list (environments=[""]) - which is an environment label like any other
ENV_LISTS = {1: [[""], ["cyt"]], 2: [["", "in"], ["cyt", "mem"]], 3: [["in", "", "out"], ["cyt", "mem", "ext"]]}


def _envs(x):
    return ENVS[:x] if isinstance(x, int) else list(x)
LABELS = ["Ab", "A", "bA"]      # one label is a prefix / substring of the others: weak label matching shows
PRIMES = [2, 3, 5, 7, 11, 13, 17, 19, 23, 29, 31, 37, 41, 43, 47, 53, 59, 61, 67, 71, 73, 79, 83, 89, 97]
DENS_UNITS = ["µM", "molecule/µm3", "nM", "nmol.cm-3", "mM"]
VOL_UNITS = ["fL", "µm3", "pL", "µL", "cm3"]
# (species, network, space, nodes, system) roles -> index into D.USYS; three generic combinations
GENERIC = [(1, 2, 2, 0, 1), (2, 0, 1, 1, 2), (0, 1, 0, 2, 0)]


class Pos:
    """Any object with x, y, z (the documented 'Coord like' position)."""

    def __init__(self, x, y, z):
        self.x, self.y, self.z = x, y, z


# ---- building the real objects from a case ----------------------------------------------------------

def mk_us(k):
    return uq.mk_sys(D.USYS[k])


def mk_q(q):
    if isinstance(q, (list, tuple)):
        tag, v, unit = q
        if tag == "str":
            return "%r %s" % (v, unit)
        return UnitValue(v, unit)
    return q


def mk_spec(spec):
    if isinstance(spec, dict):
        return {k: mk_q(v) for k, v in spec.items()}
    return mk_q(spec)


def mk_flag(spec):
    if isinstance(spec, dict):
        return dict(spec)
    return spec


def build_network(case):
    species = [Species(s["label"], density=mk_spec(s["density"]), chstt=mk_flag(s["chstt"]),
                       units_system=mk_us(s["us"])) for s in case["species"]]
    return RDNetwork(species, [], environments=list(case["envs"]), units_system=mk_us(case["net_us"]))


def build_space(case):
    sp = case["space"]
    if sp["type"] == "grid":
        return RDGridSpace(w=sp["w"], h=sp["h"], d=sp["d"], cell_env=list(sp["env"]), cell_vol=mk_q(sp["vol"]),
                           units_system=mk_us(case["space_us"]))
    nodes = [RDGraphSpaceNode(volume=mk_q(n["vol"]), environment=n["env"], units_system=mk_us(n["us"]))
             for n in sp["nodes"]]
    return RDGraphSpace(nodes=nodes, edges=[], units_system=mk_us(case["space_us"]))


def build(case, **kw):
    net = build_network(case)
    space = build_space(case)
    return net, space, RDSystem(net, space, units_system=mk_us(case["sys_us"]), **kw)


# ---- observations ------------------------------------------------------------------------------------

def safe_si(q):
    """uq.si_value, but a non-finite stored number stays a float (inf / nan) instead of raising."""
    import math
    sc = si.si_scale(uq.sys_of(q.units), uq.dim_of(q.units))
    if isinstance(q, UnitValue):
        return F(q.value) * sc if math.isfinite(q.value) else float(q.value)
    return [F(float(x)) * sc if math.isfinite(float(x)) else float(x) for x in q.value]


def rel_err(got, exact):
    if isinstance(got, float) or isinstance(exact, float):      # a non-finite number somewhere
        return 0.0 if (got == exact) else float("inf")
    if exact == 0:
        return 0.0 if got == 0 else float("inf")
    return float(abs(F(got) / exact - 1))


def raw_state(system):
    """(list of exact SI amounts, units, raw float list) of RDSystem.state."""
    st = system.state
    return safe_si(st), (uq.sys_of(st.units), uq.dim_of(st.units)), [float(x) for x in st.value]


def raw_chem(system):
    return [int(x) for x in system.chemostats]


def kind_of(case):
    return case["space"]["type"]


def species_forms(net, i):
    return [("label", net.species[i].label), ("index", i), ("object", net.species[i])]


def cell_forms(case, c):
    sp = case["space"]
    if sp["type"] != "grid":
        return [("index", c)]
    x, y, z = D.cell_coords(c, sp["w"], sp["h"])
    return [("index", c), ("tuple", (x, y, z)), ("list", [x, y, z]), ("object", Pos(x, y, z))]


def n_forms(case):
    return 3 * (4 if case["space"]["type"] == "grid" else 1)


def pick_form(net, case, i, c, k):
    sf = species_forms(net, i)
    cf = cell_forms(case, c)
    return sf[k % 3], cf[(k // 3) % len(cf)]


def check_defaults(case, system, out, stats, site="default"):
    """Raw arrays of a freshly generated default state / chemostat map against the reference."""
    kind = kind_of(case)
    nsp, nc = len(case["species"]), D.ncells(case)
    ref = D.default_state(case)
    vals, (usys, dim), raw = raw_state(system)
    site0 = site
    site = "default-state" if site == "default" else site + ":state"
    if dim != (0, 0, 1):
        out.append(("C13:%s:%s:dimension" % (site, kind), "state has dimension %s, expected an amount" % (dim,)))
    elif len(vals) != nsp * nc:
        out.append(("C13:%s:%s:length" % (site, kind), "state has %d entries, expected %d x %d"
                    % (len(vals), nsp, nc)))
    else:
        reported = set()
        for idx, (exact, route) in enumerate(ref):
            s, c = divmod(idx, nc)
            stats["route_" + route] = stats.get("route_" + route, 0) + 1
            if case.get("skip_nonnormal") and not D.is_normal_double(exact):
                # the TRUE amount over/underflows a double: nothing is specified for it
                stats["entries_skipped_true_amount_not_a_normal_double"] = stats.get("entries_skipped_true_amount_not_a_normal_double", 0) + 1
                continue
            if case.get("skip_nonnormal") and exact != 0:
                stats["extreme_entries_compared"] = stats.get("extreme_entries_compared", 0) + 1
            err = rel_err(vals[idx], exact)
            if not err <= TOL and route not in reported:
                reported.add(route)         # one report per lookup route and system
                out.append(("C13:%s:%s:value:%s" % (site, kind, route),
                            "species %d (%s) cell %d (environment %r): state[%d] = %.17g molecules, "
                            "density x volume = %.17g molecules (relative error %.3e)"
                            % (s, case["species"][s]["label"], c, case["envs"][D.cell_env(case, c)], idx,
                               float(vals[idx]), float(exact), err)))
    check_default_flags(case, system, out, stats, site0)


def check_default_flags(case, system, out, stats, site="default"):
    kind = kind_of(case)
    site = "default-chemostats" if site == "default" else site + ":chemostats"
    nsp, nc = len(case["species"]), D.ncells(case)
    ref = D.default_chemostats(case)
    got = raw_chem(system)
    if len(got) != nsp * nc:
        out.append(("C13:%s:%s:length" % (site, kind), "chemostat map has %d entries, expected %d x %d"
                    % (len(got), nsp, nc)))
        return
    reported = set()
    for idx, (flag, route) in enumerate(ref):
        if flag:
            stats["flags_set"] = stats.get("flags_set", 0) + 1
        stats["flagroute_" + route] = stats.get("flagroute_" + route, 0) + 1
        if got[idx] != flag and route not in reported:
            reported.add(route)
            s, c = divmod(idx, nc)
            out.append(("C13:%s:%s:flag:%s" % (site, kind, route),
                        "species %d (%s) cell %d (environment %r): chemostats[%d] = %r, the species' flag there is %r"
                        % (s, case["species"][s]["label"], c, case["envs"][D.cell_env(case, c)], idx, got[idx], flag)))


def getter_pass(case, net, system, out, stats, forms="all", rot=0, tag="default"):
    """get_state / get_chemostat of every (species, cell) must be exactly entry species*ncells + cell of
    the raw arrays (value in SI, dimension amount)."""
    nsp, nc = len(case["species"]), D.ncells(case)
    vals, (usys, dim), raw = raw_state(system)
    chem = raw_chem(system)
    if len(vals) != nsp * nc or len(chem) != nsp * nc:
        return
    bad = set()
    for s in range(nsp):
        for c in range(nc):
            idx = D.state_index(s, c, nc)
            if forms == "all":
                pairs = [(sf, cf) for sf in species_forms(net, s) for cf in cell_forms(case, c)]
            elif forms == "species":    # every species form, cell form rotated
                cfs = cell_forms(case, c)
                pairs = [(sf, cfs[(idx + rot + k) % len(cfs)]) for k, sf in enumerate(species_forms(net, s))]
            else:
                pairs = [pick_form(net, case, s, c, idx + rot)]
            for (sfn, sfv), (cfn, cfv) in pairs:
                site = "%s:%s" % (sfn, cfn)
                stats["getter_calls"] = stats.get("getter_calls", 0) + 2
                try:
                    g = system.get_state(sfv, cfv)
                    if type(g) is not UnitValue:
                        k = ("C13:get_state:%s:result-type" % site, "get_state returned %s" % type(g).__name__)
                    elif uq.dim_of(g.units) != (0, 0, 1):
                        k = ("C13:get_state:%s:dimension" % site, "get_state returned units %s" % g.units)
                    else:
                        gv = safe_si(g)
                        same = (gv == vals[idx]) if uq.sys_of(g.units) == usys else (rel_err(gv, vals[idx]) <= TOL)
                        k = None if same else (
                            "C13:get_state:%s:wrong-entry" % site,
                            "[%s state] get_state(species %d by %s, cell %d by %s) = %.17g molecules; "
                            "state[%d*%d+%d] = %.17g molecules"
                            % (tag, s, sfn, c, cfn, float(gv), s, nc, c, float(vals[idx])))
                except Exception as e:
                    k = ("C13:get_state:%s:unexpected-exception" % site, "get_state(species %d by %s, cell %d by %s): %s: %s"
                         % (s, sfn, c, cfn, type(e).__name__, e))
                if k is not None and k[0] not in bad:
                    bad.add(k[0])
                    out.append(k)
                try:
                    f = system.get_chemostat(sfv, cfv)
                    k = None if int(f) == chem[idx] and f == chem[idx] else (
                        "C13:get_chemostat:%s:wrong-entry" % site,
                        "[%s map] get_chemostat(species %d by %s, cell %d by %s) = %r; chemostats[%d*%d+%d] = %r"
                        % (tag, s, sfn, c, cfn, f, s, nc, c, chem[idx]))
                except Exception as e:
                    k = ("C13:get_chemostat:%s:unexpected-exception" % site,
                         "get_chemostat(species %d by %s, cell %d by %s): %s: %s" % (s, sfn, c, cfn, type(e).__name__, e))
                if k is not None and k[0] not in bad:
                    bad.add(k[0])
                    out.append(k)


# ---- one case ----------------------------------------------------------------------------------------

def _case_default(case, out, stats):
    net, space, system = build(case)
    check_defaults(case, system, out, stats)
    getter_pass(case, net, system, out, stats, forms=case.get("getters", "one"), rot=case.get("rot", 0))


def _case_access(case, out, stats):
    """All address forms on the default arrays, then on arrays whose entries are pairwise distinct (state)
    or follow the binary digits of the entry number (flags), installed through the documented
    RDSystem.state / RDSystem.chemostats attributes."""
    net, space, system = build(case)
    check_defaults(case, system, out, stats)
    getter_pass(case, net, system, out, stats, forms="all")
    fill_pass(case, net, system, out, stats)


def fill_pass(case, net, system, out, stats, forms="all"):
    """Getters (all forms) on arrays with pairwise distinct amounts / binary-digit flag patterns."""
    n = len(case["species"]) * D.ncells(case)
    fill = [float(PRIMES[i % len(PRIMES)] + 100 * (i // len(PRIMES))) for i in range(n)]
    try:
        system.state = UnitArray(fill, "nmol")
        vals, _, _ = raw_state(system)
        exp = [F(v) * D.text_scale_dim("nmol")[0] for v in fill]
        if len(vals) != n or any(not rel_err(a, b) <= TOL for a, b in zip(vals, exp)):
            out.append(("C13:state-attribute:stored-differently", "state set to %r nmol reads back %r"
                        % (fill, [float(v) for v in vals])))
            return
    except Exception as e:
        out.append(("C13:state-attribute:unexpected-exception", "%s: %s" % (type(e).__name__, e)))
        return
    nbits = max(1, (n - 1).bit_length())
    for b in range(nbits + 1):
        # pattern b < nbits: digit b of the entry number; last pattern: complement of digit 0
        pat = [((i >> b) & 1) if b < nbits else 1 - (i & 1) for i in range(n)]
        try:
            system.chemostats = pat
            if raw_chem(system) != pat:
                out.append(("C13:chemostats-attribute:stored-differently", "chemostats set to %r reads back %r"
                            % (pat, raw_chem(system))))
                return
        except Exception as e:
            out.append(("C13:chemostats-attribute:unexpected-exception", "%s: %s" % (type(e).__name__, e)))
            return
        getter_pass(case, net, system, out, stats, forms=forms, rot=b, tag="distinct-entries")


def _addr(net, case, op):
    sf = dict(species_forms(net, op["species"]))[op["spform"]]
    cf = dict(cell_forms(case, op["cell"]))[op["cellform"]]
    return sf, cf


def _case_ops(case, out, stats):
    """E2: apply the listed set_state / set_chemostat calls to a fresh default system, then read everything."""
    net, space, system = build(case)
    nsp, nc = len(case["species"]), D.ncells(case)
    n = nsp * nc
    vals0, units0, raw0 = raw_state(system)
    chem0 = raw_chem(system)
    if len(vals0) != n or len(chem0) != n:
        out.append(("C13:default-state:%s:length" % kind_of(case), "arrays of length %d / %d, expected %d"
                    % (len(vals0), len(chem0), n)))
        return
    exp_state = {}      # entry -> exact SI amount of the last write
    exp_chem = list(chem0)
    names = []
    for op in case["ops"]:
        idx = D.state_index(op["species"], op["cell"], nc)
        sfv, cfv = _addr(net, case, op)
        names.append("%s:%s:%s:%s" % (op["op"], op["spform"], op["cellform"], op["vkind"]))
        stats["set_calls"] = stats.get("set_calls", 0) + 1
        try:
            if op["op"] == "set_state":
                system.set_state(sfv, cfv, mk_q(op["value"]))
                exp_state[idx] = D.amount_si(op["value"], D.USYS[case["sys_us"]])
            else:
                system.set_chemostat(sfv, cfv, op["value"])
                exp_chem[idx] = int(op["value"])
        except Exception as e:
            out.append(("C13:%s:unexpected-exception" % names[-1], "%s(species %d, cell %d, %r): %s: %s"
                        % (op["op"], op["species"], op["cell"], op["value"], type(e).__name__, e)))
            return
    site = names[0] if len(names) == 1 else "sequence:" + ",".join(
        "%s[%s]" % (o["op"], o["vkind"]) for o in case["ops"]) + (
        ":same-entry" if len({(o["species"], o["cell"]) for o in case["ops"]}) == 1 else ":different-entries")
    vals1, units1, raw1 = raw_state(system)
    chem1 = raw_chem(system)
    if len(vals1) != n or len(chem1) != n:
        out.append(("C13:%s:length-changed" % site, "arrays of length %d / %d after the calls" % (len(vals1), len(chem1))))
        return
    if units1[1] != (0, 0, 1):
        out.append(("C13:%s:dimension" % site, "state dimension became %s" % (units1[1],)))
        return
    for idx in range(n):
        s, c = divmod(idx, nc)
        if idx in exp_state:
            err = rel_err(vals1[idx], exp_state[idx])
            if err > 0 or vals1[idx] != vals0[idx]:
                stats["state_entries_changed"] = stats.get("state_entries_changed", 0) + 1
            if not err <= TOL:
                out.append(("C13:%s:addressed-entry" % site,
                            "after %s: state[%d] (species %d, cell %d) = %.17g molecules, written value = %.17g molecules"
                            % (_ops_text(case), idx, s, c, float(vals1[idx]), float(exp_state[idx]))))
                break
        else:
            same = (raw1[idx] == raw0[idx]) if units1 == units0 else (rel_err(vals1[idx], vals0[idx]) <= TOL)
            if not same:
                out.append(("C13:%s:frame" % site,
                            "after %s: state[%d] (species %d, cell %d), which was not addressed, changed from %.17g to %.17g molecules"
                            % (_ops_text(case), idx, s, c, float(vals0[idx]), float(vals1[idx]))))
                break
    for idx in range(n):
        if chem1[idx] != exp_chem[idx]:
            s, c = divmod(idx, nc)
            cls = "addressed-flag" if any(o["op"] == "set_chemostat" and D.state_index(o["species"], o["cell"], nc) == idx
                                          for o in case["ops"]) else "frame-flags"
            out.append(("C13:%s:%s" % (site, cls), "after %s: chemostats[%d] (species %d, cell %d) = %r, expected %r"
                        % (_ops_text(case), idx, s, c, chem1[idx], exp_chem[idx])))
            break
        if chem1[idx] != chem0[idx]:
            stats["flags_flipped"] = stats.get("flags_flipped", 0) + 1
    getter_pass(case, net, system, out, stats, forms="one", rot=case.get("rot", 0), tag="after-set")


def _ops_text(case):
    return "; ".join("%s(species %d by %s, cell %d by %s, %r)" % (o["op"], o["species"], o["spform"], o["cell"],
                                                                 o["cellform"], o["value"]) for o in case["ops"])


def _case_regen(case, out, stats):
    """Edit one species' density / chstt, regenerate, compare with the reference of the edited network."""
    net, space, system = build(case)
    ed = case["edit"]
    i = ed["species"]
    edited = dict(case)
    edited["species"] = [dict(s) for s in case["species"]]
    if ed.get("dirty"):
        system.set_state(i, 0, 999)
        system.set_chemostat(i, 0, 1 - int(system.get_chemostat(i, 0)))
    sp = system.network.get_species(case["species"][i]["label"])
    if "density" in ed:
        sp.density = mk_spec(ed["density"])
        edited["species"][i]["density"] = ed["density"]
    if "chstt" in ed:
        sp.chstt = mk_flag(ed["chstt"])
        edited["species"][i]["chstt"] = ed["chstt"]
    system.set_default_state()
    system.set_default_chemostats()
    sub = []
    check_defaults(edited, system, sub, stats, site="regenerate:%s%s" % (ed["name"], ":after-set" if ed.get("dirty") else ""))
    out.extend(sub)
    stats["regenerations"] = stats.get("regenerations", 0) + 1


def _case_override(case, out, stats):
    """Documented dict overrides: RDSystem(state={label: UnitArray}, chemostats={label: array}) and
    set_default_state(dict) / set_default_chemostats(dict): listed species take the given row, the
    others keep their default."""
    ov = case["override"]
    nsp, nc = len(case["species"]), D.ncells(case)
    sdict, cdict = {}, {}
    exp_rows, exp_flags = {}, {}
    for j, i in enumerate(ov["species"]):
        unit = ["mol", "molecule", "nmol"][(i + j) % 3]
        vals = [float(PRIMES[(i * nc + c) % len(PRIMES)]) + 0.5 for c in range(nc)]
        flags = [(i + c + 1) % 2 for c in range(nc)]
        lab = case["species"][i]["label"]
        sdict[lab] = UnitArray(vals, unit)
        cdict[lab] = list(flags)
        exp_rows[i] = [F(v) * D.text_scale_dim(unit)[0] for v in vals]
        exp_flags[i] = flags
    route = ov["route"]
    what = ov["what"]
    try:
        if route == "constructor":
            kw = {"state": sdict} if what == "state" else {"chemostats": cdict}
            net, space, system = build(case, **kw)
        else:
            net, space, system = build(case)
            if what == "state":
                system.set_default_state(sdict)
            else:
                system.set_default_chemostats(cdict)
    except Exception as e:
        out.append(("C13:override:%s:%s:unexpected-exception" % (what, route),
                    "%s override for species %r: %s: %s" % (what, [case["species"][i]["label"] for i in ov["species"]],
                                                            type(e).__name__, e)))
        return
    stats["overrides"] = stats.get("overrides", 0) + 1
    ref_s = D.default_state(case)
    ref_c = D.default_chemostats(case)
    vals, units, raw = raw_state(system)
    chem = raw_chem(system)
    if len(vals) != nsp * nc or len(chem) != nsp * nc or units[1] != (0, 0, 1):
        out.append(("C13:override:%s:%s:shape" % (what, route), "lengths %d / %d, units %s" % (len(vals), len(chem), units)))
        return
    for idx in range(nsp * nc):
        s, c = divmod(idx, nc)
        es = exp_rows[s][c] if (what == "state" and s in exp_rows) else ref_s[idx][0]
        ec = exp_flags[s][c] if (what == "chemostats" and s in exp_flags) else ref_c[idx][0]
        if not rel_err(vals[idx], es) <= TOL:
            out.append(("C13:override:%s:%s:%s" % (what, route, "overridden-row" if s in exp_rows and what == "state" else "other-row"),
                        "state[%d] = %.17g molecules, expected %.17g" % (idx, float(vals[idx]), float(es))))
            return
        if chem[idx] != ec:
            out.append(("C13:override:%s:%s:%s" % (what, route, "overridden-flags" if s in exp_flags and what == "chemostats" else "other-flags"),
                        "chemostats[%d] = %r, expected %r" % (idx, chem[idx], ec)))
            return


def case_to_dict(case):
    """The documented dictionary form (documentation/json_and_dict_doc.rst) of a grid case, with an explicit
    "units" dictionary at every level (nothing is left to inheritance)."""
    def jq(q):
        if isinstance(q, (list, tuple)):
            if q[0] != "str":
                raise ValueError("UnitValue objects have no dictionary form")
            return "%r %s" % (q[1], q[2])
        return q

    def jspec(spec):
        return {k: jq(v) for k, v in spec.items()} if isinstance(spec, dict) else jq(spec)
    sp = case["space"]
    omit = case.get("omit_units", ())       # levels whose "units" key is left out (documented default: "inherit")

    modes = case.get("units_mode", {})      # level -> "dict" | "absent" | "inherit" | "default"

    def with_units(d, level, k):
        mode = modes.get(level, "absent" if level in omit else "dict")
        if mode == "dict":
            d["units"] = uq.sysdict(D.USYS[k])
        elif mode in ("inherit", "default"):
            d["units"] = mode
        return d
    if sp["type"] == "grid":
        space = {"type": "grid", "w": sp["w"], "h": sp["h"], "d": sp["d"], "cell_env": list(sp["env"]), "cell_volume": jq(sp["vol"])}
    else:
        space = {"type": "graph", "edges": [],
                 "nodes": [with_units({"volume": jq(nd["vol"]), "environment": nd["env"]}, "nodes", nd["us"]) for nd in sp["nodes"]]}
    return {"units": uq.sysdict(D.USYS[case["sys_us"]]),
            "network": with_units({"environments": list(case["envs"]), "reactions": [],
                                   "species": [with_units({"label": s["label"], "density": jspec(s["density"]), "chstt": mk_flag(s["chstt"])},
                                                          "species", s["us"]) for s in case["species"]]}, "network", case["net_us"]),
            "space": with_units(space, "space", case["space_us"])}


def _case_dict(case, out, stats):
    """The same defaults when the system is built from its documented dictionary without "state"/"chemostats"."""
    d = case_to_dict(case)
    files = case.get("files", "one-dict")
    if files == "one-dict":
        system = rdsystem_from_dict(d)
    else:
        import json
        import shutil
        import tempfile
        tmp = tempfile.mkdtemp(prefix="c13_")
        try:
            for key in ("network", "space"):
                if key in files:
                    with open(tmp + "/%s.json" % key, "w", encoding="utf-8") as f:
                        json.dump(d[key], f, ensure_ascii=False)
                    d[key] = "%s.json" % key
            with open(tmp + "/system.json", "w", encoding="utf-8") as f:
                json.dump(d, f, ensure_ascii=False)
            system = load_rdsystem(tmp + "/system.json")
        finally:
            shutil.rmtree(tmp, ignore_errors=True)
        stats["systems_loaded_from_files"] = stats.get("systems_loaded_from_files", 0) + 1
    detail = ""
    if case.get("omit_units"):
        detail = ":inherited-units-" + "+".join(case["omit_units"])
    if case.get("units_mode"):
        um = case["units_mode"]
        detail = ":units[%s]" % ",".join("%s=%s" % (k, um[k]) for k in ("network", "species", "space", "nodes") if k in um)
    if files != "one-dict":
        detail += ":files[%s]" % files
    check_defaults(case, system, out, stats, site="from_dict" + detail)
    getter_pass(case, system.network, system, out, stats, forms="all", tag="from_dict")


def write_pass(case, net, system, out, stats):
    """set_state / set_chemostat of every entry with the species given by label, index and object (cell
    form rotated): exactly entry species*ncells + cell of the raw arrays changes."""
    nsp, nc = len(case["species"]), D.ncells(case)
    n = nsp * nc
    scale = si.si_scale(D.USYS[case["sys_us"]], (0, 0, 1))
    bad = set()
    for idx in range(n):
        s, c = divmod(idx, nc)
        for k, (sfn, sfv) in enumerate(species_forms(net, s)):
            cfs = cell_forms(case, c)
            cfn, cfv = cfs[(idx + k) % len(cfs)]
            vals0, units0, raw0 = raw_state(system)
            chem0 = raw_chem(system)
            if len(vals0) != n or len(chem0) != n:
                return
            v = 7001 + 10 * idx + k
            newflag = 1 - chem0[idx]
            stats["set_calls"] = stats.get("set_calls", 0) + 2
            try:
                system.set_state(sfv, cfv, v)
                system.set_chemostat(sfv, cfv, newflag)
            except Exception as e:
                key = ("C13:set_state:%s:%s:unexpected-exception" % (sfn, cfn), "set of species %d by %s, cell %d by %s: %s: %s"
                       % (s, sfn, c, cfn, type(e).__name__, e))
                if key[0] not in bad:
                    bad.add(key[0])
                    out.append(key)
                continue
            vals1, units1, raw1 = raw_state(system)
            chem1 = raw_chem(system)
            key = None
            if len(vals1) != n or len(chem1) != n:
                key = ("C13:set_state:%s:%s:length-changed" % (sfn, cfn), "array lengths changed")
            elif not rel_err(vals1[idx], F(v) * scale) <= TOL:
                key = ("C13:set_state:%s:%s:addressed-entry" % (sfn, cfn),
                       "set_state(species %d by %s, cell %d by %s, %d): state[%d*%d+%d] = %.17g molecules, written %.17g"
                       % (s, sfn, c, cfn, v, s, nc, c, float(vals1[idx]), float(F(v) * scale)))
            elif any(raw1[j] != raw0[j] for j in range(n) if j != idx) or units1 != units0:
                j = [j for j in range(n) if j != idx and raw1[j] != raw0[j]]
                key = ("C13:set_state:%s:%s:frame" % (sfn, cfn), "set_state(species %d by %s, cell %d by %s) changed entries %r"
                       % (s, sfn, c, cfn, j))
            elif chem1[idx] != newflag:
                key = ("C13:set_chemostat:%s:%s:addressed-flag" % (sfn, cfn),
                       "set_chemostat(species %d by %s, cell %d by %s, %d): chemostats[%d*%d+%d] = %r"
                       % (s, sfn, c, cfn, newflag, s, nc, c, chem1[idx]))
            elif any(chem1[j] != chem0[j] for j in range(n) if j != idx):
                key = ("C13:set_chemostat:%s:%s:frame-flags" % (sfn, cfn), "set_chemostat(species %d by %s, cell %d by %s) changed other flags"
                       % (s, sfn, c, cfn))
            if key is not None and key[0] not in bad:
                bad.add(key[0])
                out.append(key)


# ---- E2 on ONE network / system object: histories of documented mutations ------------------------------

HIST_ENVS = ["in", "", "out"]
HIST_SPACES = {
    "grid": {"space": {"type": "grid", "w": 2, "h": 1, "d": 2, "env": [0, 1, 2, 1], "vol": ["str", 3, "fL"]}, "space_us": 2},
    "grid2": {"space": {"type": "grid", "w": 1, "h": 3, "d": 1, "env": [2, 1, 0], "vol": 5}, "space_us": 1},
    "graph": {"space": {"type": "graph", "nodes": [{"vol": 2, "env": 1, "us": 1}, {"vol": ["str", 7, "pL"], "env": 2, "us": 0},
                                                   {"vol": 11, "env": 0, "us": 2}]}, "space_us": 0},
}
NEW_SPECIES = {"label": "Zz", "us": 2, "density": {"": 149, "in": ["str", 151, "nM"]}, "chstt": {"default": True, "": False}}
HIST_OPS = ["perm:rot", "perm:swap01", "perm:rev", "insert-front", "append", "remove-first", "remove-last", "reactions",
            "env:rotate", "env:rename", "density:first", "density:last", "chstt:first", "chstt:last",
            "space:graph", "space:grid2", "regen-state", "regen-chem", "new-system", "copy-net", "copy-system"]


def hist_base(start):
    slots = Slots(DENS_UNITS)
    species = [{"label": LABELS[i], "us": (1 + i) % 3, "density": dens_kind(KINDS[(i + 1) % 4], i, HIST_ENVS, slots),
                "chstt": flag_kind(KINDS[(i + 2) % 4], i, HIST_ENVS)} for i in range(3)]
    case = {"sub": "history", "envs": list(HIST_ENVS), "species": species, "net_us": 2, "sys_us": 1, "reaction": None}
    case.update(copy.deepcopy(HIST_SPACES[start]))
    return case


def _snapshot(system):
    return raw_state(system)[0], raw_chem(system)


def hist_apply(op, model, live):
    """Apply one documented mutation to the live objects and to the model (the plain description of the
    CURRENT content)."""
    net, system = live["net"], live["system"]
    sp = list(net.species)
    ms = model["species"]

    def set_species(order_live, order_model):
        # a reaction must not be left pointing at a species that disappears
        if model["reaction"] and not set(model["reaction"]) <= {m["label"] for m in order_model}:
            net.reactions = []
            model["reaction"] = None
        net.species = order_live
        model["species"] = order_model
    if op.startswith("perm:"):
        n = len(sp)
        perm = {"rot": list(range(1, n)) + [0], "swap01": ([1, 0] + list(range(2, n)))[:n] if n >= 2 else [0],
                "rev": list(range(n - 1, -1, -1))}[op[5:]]
        set_species([sp[i] for i in perm], [ms[i] for i in perm])
    elif op in ("insert-front", "append"):
        if any(m["label"] == NEW_SPECIES["label"] for m in ms):
            return
        new = Species(NEW_SPECIES["label"], density=mk_spec(NEW_SPECIES["density"]), chstt=mk_flag(NEW_SPECIES["chstt"]),
                      units_system=mk_us(NEW_SPECIES["us"]))
        nm = copy.deepcopy(NEW_SPECIES)
        if op == "insert-front":
            set_species([new] + sp, [nm] + ms)
        else:
            set_species(sp + [new], ms + [nm])
    elif op in ("remove-first", "remove-last"):
        if len(sp) < 2:
            return
        if op == "remove-first":
            set_species(sp[1:], ms[1:])
        else:
            set_species(sp[:-1], ms[:-1])
    elif op == "reactions":
        if model["reaction"] or len(ms) < 2:
            net.reactions = []
            model["reaction"] = None
        else:
            a, b = ms[-2]["label"], ms[-1]["label"]
            net.reactions = [Reaction("%s -> %s" % (a, b), kf=1, kr=2, label="r1")]
            model["reaction"] = [a, b]
    elif op == "env:rotate":
        model["envs"] = model["envs"][1:] + model["envs"][:1]
        net.environments = list(model["envs"])
    elif op == "env:rename":
        model["envs"] = [("x" if e == "" else ("" if e == "x" else e)) for e in model["envs"]]
        net.environments = list(model["envs"])
    elif op.startswith("density:") or op.startswith("chstt:"):
        i = 0 if op.endswith(":first") else len(ms) - 1
        if op.startswith("density:"):
            spec = {"": 131, "default": ["str", 137, "µM"]} if i == 0 else 139
            net.species[i].density = mk_spec(spec)
            ms[i]["density"] = spec
        else:
            spec = {"": True, "out": True} if i == 0 else (not bool(ms[i]["chstt"]) if not isinstance(ms[i]["chstt"], dict) else True)
            net.species[i].chstt = mk_flag(spec)
            ms[i]["chstt"] = spec
    elif op.startswith("space:"):
        model.update(copy.deepcopy(HIST_SPACES[op[6:]]))
        system.space = build_space(model)
    elif op == "regen-state":
        system.set_default_state()
    elif op == "regen-chem":
        system.set_default_chemostats()
    elif op == "new-system":
        live["system"] = RDSystem(net, system.space, units_system=mk_us(model["sys_us"]))
    elif op in ("copy-net", "copy-system"):
        live["frozen"].append((net, system, copy.deepcopy(model), _snapshot(system)))
        if op == "copy-net":
            live["net"] = net.copy()
            live["system"] = RDSystem(live["net"], system.space, units_system=mk_us(model["sys_us"]))
        else:
            live["system"] = system.copy()
            live["net"] = live["system"].network
    else:
        raise ValueError(op)


def _short(key):
    """Underlying key without the 'C13:' prefix and, for accessors, without the cell form."""
    p = key.split(":")[1:]
    if p and p[0] in ("get_state", "get_chemostat", "set_state", "set_chemostat") and len(p) >= 4:
        p = [p[0], p[1], p[-1]]
    return ":".join(p)


def hist_sync(model, net, system, out, stats, site):
    """Full read-back of a system whose arrays have just been (re)generated from the CURRENT content."""
    sub = []
    check_defaults(model, system, sub, stats, site="current")
    getter_pass(model, net, system, sub, stats, forms="species", tag="current")
    write_pass(model, net, system, sub, stats)
    fill_pass(model, net, system, sub, stats, forms="species")
    seen = set()
    for k, w in sub:
        kk = "C13:history:%s:%s" % (site, _short(k))
        if kk not in seen:
            seen.add(kk)
            out.append((kk, w))


def _case_history(case, out, stats):
    """Only MINIMAL violating histories are reported: a violating history one of whose proper
    sub-histories (order-preserving subsequences, the empty one included) also violates is dropped."""
    mine = []
    _history(case, mine, stats)
    ops = list(case["ops"])
    if mine and ops and not case.get("_sub"):
        for r in range(len(ops)):
            for idxs in itertools.combinations(range(len(ops)), r):
                sub = dict(case)
                sub["ops"] = [ops[i] for i in idxs]
                sub["_sub"] = True
                inner = []
                try:
                    _history(sub, inner, {})
                except Exception as e:
                    inner = [("x", str(e))]
                if inner:
                    stats["histories_not_minimal"] = stats.get("histories_not_minimal", 0) + 1
                    return
    out.extend(mine)


def _history(case, out, stats):
    ops = list(case["ops"])
    model = hist_base(case["start"])
    net, space, system = build(model)
    live = {"net": net, "system": system, "frozen": []}
    hname = ",".join(ops) if ops else "none"
    for k, op in enumerate(ops):
        try:
            hist_apply(op, model, live)
        except Exception as e:
            out.append(("C13:history:%s:op-%d:unexpected-exception" % (hname, k + 1), "%s raised %s: %s" % (op, type(e).__name__, e)))
            return
    stats["history_ops"] = stats.get("history_ops", 0) + len(ops)
    net, system = live["net"], live["system"]
    # (A) a NEW system on the current network and space
    try:
        fresh_on_same = RDSystem(net, system.space, units_system=mk_us(model["sys_us"]))
    except Exception as e:
        out.append(("C13:history:%s:new-system:unexpected-exception" % hname, "%s: %s" % (type(e).__name__, e)))
        return
    hist_sync(model, net, fresh_on_same, out, stats, "%s:new-system" % hname)
    # (B) the existing system after regenerating both defaults
    try:
        system.set_default_state()
        system.set_default_chemostats()
    except Exception as e:
        out.append(("C13:history:%s:regenerate:unexpected-exception" % hname, "%s: %s" % (type(e).__name__, e)))
        return
    a = _snapshot(system)
    hist_sync(model, net, system, out, stats, "%s:regenerate" % hname)
    # (C) differential: a fresh network / space / system built from the current content
    fnet, fspace, fsys = build(model)
    b = _snapshot(fsys)
    if len(a[0]) != len(b[0]) or any(not rel_err(x, y) <= TOL for x, y in zip(a[0], b[0])) or a[1] != b[1]:
        out.append(("C13:history:%s:differs-from-fresh" % hname,
                    "regenerated arrays %r / %r; a fresh system with the same content has %r / %r"
                    % ([float(x) for x in a[0]], a[1], [float(x) for x in b[0]], b[1])))
    # (D) objects that were copied from must be untouched by what happened to the copy
    for fnet0, fsys0, fmodel, snap in live["frozen"]:
        now = _snapshot(fsys0)
        if now != snap:
            out.append(("C13:history:%s:original-changed" % hname, "the arrays of the system that was copied from changed"))
            continue
        try:
            fsys0.set_default_state()
            fsys0.set_default_chemostats()
        except Exception as e:
            out.append(("C13:history:%s:original:unexpected-exception" % hname, "%s: %s" % (type(e).__name__, e)))
            continue
        hist_sync(fmodel, fnet0, fsys0, out, stats, "%s:original" % hname)


def _case_magnitude(case, out, stats):
    """Densities of extreme but valid magnitude in a length unit far from the network's: the default
    amount (at construction, or after editing the densities + set_default_state()) is still
    density x volume whenever that exact amount is a normal double."""
    if case["mode"] == "construct":
        net, space, system = build(case)
        check_defaults(case, system, out, stats, site="magnitude")
    else:
        plain = dict(case)
        plain["species"] = [dict(sp, density=3 + i) for i, sp in enumerate(case["species"])]
        net, space, system = build(plain)
        for sp in case["species"]:
            system.network.get_species(sp["label"]).density = mk_spec(sp["density"])
        system.set_default_state()
        check_defaults(case, system, out, stats, site="magnitude:regenerate")
    getter_pass(case, net, system, out, stats, forms="one", tag="magnitude")


CARRIERS = ("ndarray", "tuple", "list", "object", "index")
CARRIER_DTYPES = ("int8", "uint8", "int16", "int32", "int64")


def carrier_pos(carrier, dtype, x, y, z, c):
    """The position (x, y, z) / linear index c held in numpy integers of the given dtype, or None when a
    value does not fit the dtype."""
    info = np.iinfo(dtype)
    vals = (c,) if carrier == "index" else (x, y, z)
    if any(v < info.min or v > info.max for v in vals):
        return None
    dt = np.dtype(dtype).type
    if carrier == "ndarray":
        return np.array([x, y, z], dtype=dtype)
    if carrier == "tuple":
        return (dt(x), dt(y), dt(z))
    if carrier == "list":
        return [dt(x), dt(y), dt(z)]
    if carrier == "object":
        return Pos(dt(x), dt(y), dt(z))
    return dt(c)


def _case_carrier(case, out, stats):
    """Coordinates / linear indices carried by numpy integers of several widths: an accessor that ACCEPTS
    such a position must hit exactly entry species*n + z*w*h + y*w + x (a rejection is only counted)."""
    import warnings
    net, space, system = build(case)
    sp = case["space"]
    w, h = sp["w"], sp["h"]
    nsp, nc = len(case["species"]), D.ncells(case)
    n = nsp * nc
    carrier, dtype = case["carrier"], case["dtype"]
    system.state = UnitArray([float(i + 1) for i in range(n)], "molecule")
    system.chemostats = [0] * n
    sscale = si.si_scale(uq.sys_of(system.state.units), (0, 0, 1))
    wscale = si.si_scale(D.USYS[case["sys_us"]], (0, 0, 1))
    raw = np.array(system.state.value, dtype=float)
    bad = set()

    def report(acc, cls, what):
        key = "C13:carrier:%s:%s:%s:%s" % (acc, carrier, dtype, cls)
        if key not in bad:
            bad.add(key)
            out.append((key, what))

    def rejected(acc):
        stats["carrier_rejected_" + acc] = stats.get("carrier_rejected_" + acc, 0) + 1

    with warnings.catch_warnings():
        warnings.simplefilter("ignore")
        for c in range(nc):
            x, y, z = D.cell_coords(c, w, h)
            s = (c + c // w) % nsp
            idx = D.state_index(s, c, nc)
            sfn, sfv = species_forms(net, s)[c % 3]
            where = "species %d by %s, cell (%d,%d,%d) = %d as %s of %s on %dx%dx%d" % (s, sfn, x, y, z, c, carrier, dtype, w, h, sp["d"])
            pos = carrier_pos(carrier, dtype, x, y, z, c)
            if pos is None:
                stats["carrier_value_does_not_fit"] = stats.get("carrier_value_does_not_fit", 0) + 1
                continue
            stats["carrier_addresses"] = stats.get("carrier_addresses", 0) + 1
            # get_state
            try:
                g = system.get_state(sfv, carrier_pos(carrier, dtype, x, y, z, c))
            except Exception:
                rejected("get_state")
            else:
                if uq.si_value(g) != F(float(raw[idx])) * sscale:
                    report("get_state", "wrong-entry", "get_state(%s) = %s; state[%d*%d+%d] = %r molecule" % (where, g, s, nc, c, float(raw[idx])))
            # get_chemostat on a one-hot map installed through plain python ints
            system.set_chemostat(s, c, 1)
            try:
                f = system.get_chemostat(sfv, carrier_pos(carrier, dtype, x, y, z, c))
            except Exception:
                rejected("get_chemostat")
            else:
                if int(f) != 1:
                    report("get_chemostat", "wrong-entry", "get_chemostat(%s) = %r although chemostats[%d*%d+%d] is the only flag set" % (where, f, s, nc, c))
            system.set_chemostat(s, c, 0)
            # set_state
            v = 5000.5 + idx
            try:
                system.set_state(sfv, carrier_pos(carrier, dtype, x, y, z, c), v)
            except Exception:
                rejected("set_state")
            else:
                after = np.array(system.state.value, dtype=float)
                changed = [int(i) for i in np.nonzero(after != raw)[0]]
                ok = changed == [idx] and rel_err(F(float(after[idx])) * sscale, F(v) * wscale) <= TOL
                if not ok:
                    report("set_state", "wrong-entry", "set_state(%s, %r) changed raw entries %r, expected [%d]" % (where, v, changed, idx))
                system.state = UnitArray([float(i + 1) for i in range(n)], "molecule")
                raw = np.array(system.state.value, dtype=float)
            # set_chemostat
            try:
                system.set_chemostat(sfv, carrier_pos(carrier, dtype, x, y, z, c), 1)
            except Exception:
                rejected("set_chemostat")
            else:
                chem = np.array(system.chemostats)
                changed = [int(i) for i in np.nonzero(chem != 0)[0]]
                if changed != [idx]:
                    report("set_chemostat", "wrong-entry", "set_chemostat(%s, 1) set raw flags %r, expected [%d]" % (where, changed, idx))
                system.chemostats = [0] * n
            stats["getter_calls"] = stats.get("getter_calls", 0) + 2
            stats["set_calls"] = stats.get("set_calls", 0) + 2


# ---- every way of editing a species, then regenerate ---------------------------------------------------

EDIT_OPS = ["set:chstt=flip", "set:chstt={e0}", "set:chstt={e1,default}",
            "get:chstt[e0]=flip", "get:chstt[e2]=flip", "get:chstt[default]=flip", "get:del-chstt[e0]", "get:del-chstt[default]",
            "get:chstt.clear", "get:chstt.update",
            "ctor:chstt[e0]=flip", "ctor:chstt[default]=flip", "ctor:del-chstt[e1]",
            "set:density=scalar", "set:density={e0,default}",
            "get:density[e0]=uv", "get:density[default]=uv", "get:del-density[e1]", "get:del-density[default]",
            "ctor:density[e0]=uv", "ctor:del-density[e1]"]


def live_model(case, net):
    """The description of what the network's PUBLIC attributes report now (labels, environments, densities
    as exact SI values, chstt as stored)."""
    m = dict(case)
    m["envs"] = list(net.environments)
    sp = []
    for k, s_ in enumerate(net.species):
        d = s_.density
        if isinstance(d, dict):
            dens = {key: ["si", uq.si_value(v), "density"] for key, v in d.items()}
        else:
            dens = ["si", uq.si_value(d), "density"]
        c = s_.chstt
        sp.append({"label": s_.label, "us": 0, "density": dens, "chstt": dict(c) if isinstance(c, dict) else c})
    m["species"] = sp
    return m


def edit_apply(op, sp, envs, held, i):
    """Apply one edit to Species sp. held = {'chstt': dict object last passed in by the caller or None,
    'density': likewise}. Returns False when the edit does not apply (e.g. item assignment on a scalar)."""
    how, what = op.split(":", 1)
    attr = "chstt" if "chstt" in what else "density"
    e = {"e0": envs[0], "e1": envs[1], "e2": envs[2], "default": "default"}

    def eff(key):
        cur = getattr(sp, attr)
        v, route = D.lookup(cur, key) if key != "default" else ((cur.get("default"), "d") if isinstance(cur, dict) else (cur, "s"))
        return v
    if how == "set":
        if what == "chstt=flip":
            cur = sp.chstt
            sp.chstt = (not bool(cur)) if not isinstance(cur, dict) else True
            held["chstt"] = None
        elif what == "chstt={e0}":
            d = {e["e0"]: not bool(eff(e["e0"]))}
            sp.chstt = d
            held["chstt"] = d
        elif what == "chstt={e1,default}":
            d = {e["e1"]: False, "default": True}
            sp.chstt = d
            held["chstt"] = d
        elif what == "density=scalar":
            sp.density = 211 + i
            held["density"] = None
        elif what == "density={e0,default}":
            d = {e["e0"]: 223 + i, "default": "%d nM" % (227 + i)}
            sp.density = d
            held["density"] = d
        else:
            raise ValueError(op)
        return True
    target = getattr(sp, attr) if how == "get" else held[attr]
    if not isinstance(target, dict):
        return False
    uv = UnitValue(229 + 2 * i, "nM")
    if what.endswith("=flip"):
        key = e[what[what.index("[") + 1:what.index("]")]]
        target[key] = not bool(eff(key))
    elif what.endswith("=uv"):
        key = e[what[what.index("[") + 1:what.index("]")]]
        target[key] = uv
    elif what.startswith("del-"):
        key = e[what[what.index("[") + 1:what.index("]")]]
        if key not in target:
            return False
        del target[key]
    elif what == "chstt.clear":
        if not target:
            return False
        target.clear()
    elif what == "chstt.update":
        target.update({e["e2"]: True, "default": False, e["e0"]: True})
    else:
        raise ValueError(op)
    return True


def _edit_run(case, out, stats):
    base = hist_base(case["start"])
    envs = base["envs"]
    held_all = []
    species = []
    for s_ in base["species"]:
        dd, cc = mk_spec(s_["density"]), mk_flag(s_["chstt"])
        held_all.append({"density": dd if isinstance(dd, dict) else None, "chstt": cc if isinstance(cc, dict) else None})
        species.append(Species(s_["label"], density=dd, chstt=cc, units_system=mk_us(s_["us"])))
    net = RDNetwork(species, [], environments=list(envs), units_system=mk_us(base["net_us"]))
    system = RDSystem(net, build_space(base), units_system=mk_us(base["sys_us"]))
    i = case["target"]
    applied = 0
    for op in case["ops"]:
        if edit_apply(op, net.species[i], envs, held_all[i], i):
            applied += 1
        else:
            stats["edits_not_applicable"] = stats.get("edits_not_applicable", 0) + 1
    stats["edits_applied"] = stats.get("edits_applied", 0) + applied
    model = live_model(base, net)
    hname = "%s" % ",".join(case["ops"])
    for sync in ("new-system", "regenerate"):
        if sync == "new-system":
            sysx = RDSystem(net, system.space, units_system=mk_us(base["sys_us"]))
        else:
            system.set_default_state()
            system.set_default_chemostats()
            sysx = system
        sub = []
        check_defaults(model, sysx, sub, stats, site="x")
        getter_pass(model, net, sysx, sub, stats, forms="one", tag="after-edit")
        seen = set()
        for k, w in sub:
            p = k.split(":")
            cls = "chemostats" if "chemostats" in p or p[1] == "get_chemostat" else "state"
            kk = "C13:edit:%s:%s:%s" % (hname, sync, cls)
            if kk not in seen:
                seen.add(kk)
                out.append((kk, "species %d after %s, %s: %s" % (i, hname, sync, w)))
    return applied


def _case_edit(case, out, stats):
    """Only minimal violating edit sequences are reported (see _case_history)."""
    mine = []
    _edit_run(case, mine, stats)
    ops = list(case["ops"])
    if mine and len(ops) > 1:
        for k in range(len(ops)):
            sub = dict(case)
            sub["ops"] = ops[:k] + ops[k + 1:]
            inner = []
            try:
                _edit_run(sub, inner, {})
            except Exception as e:
                inner = [("x", str(e))]
            if inner:
                stats["edit_sequences_not_minimal"] = stats.get("edit_sequences_not_minimal", 0) + 1
                return
    out.extend(mine)


# ---- the state a system holds BEFORE regeneration; spaces edited through their setters ------------------

PRE_STATES = ["default", "ctor:UnitArray:µmol", "ctor:UnitArray:nmol", "ctor:UnitArray:mol", "ctor:UnitArray:molecule",
              "attr:UnitArray:µmol", "attr:UnitArray:nmol", "attr:UnitArray:mol", "ctor:list", "attr:list", "set_state", "reset_state"]
PRE_EDITS = ["none", "density-scalar", "density-dict"]


def _case_prestate(case, out, stats):
    """set_default_state() / set_default_chemostats() whatever state the system held before (explicit
    UnitArray in a foreign quantity unit, bare numbers in the system's units, ...): afterwards every
    entry, read in SI from the raw array + its units and through get_state, is density x volume."""
    base = hist_base(case["start"])
    base["net_us"], base["sys_us"] = case["net_us"], case["sys_us"]
    net = build_network(base)
    space = build_space(base)
    n = len(base["species"]) * D.ncells(base)
    vals = [float(PRIMES[i % len(PRIMES)]) + 0.25 for i in range(n)]
    flags = [(i // 2) % 2 for i in range(n)]
    pre = case["pre"].split(":")
    us = mk_us(base["sys_us"])
    if pre[0] == "ctor":
        st = UnitArray(vals, pre[2]) if pre[1] == "UnitArray" else list(vals)
        system = RDSystem(net, space, state=st, chemostats=list(flags), units_system=us)
    else:
        system = RDSystem(net, space, units_system=us)
        if pre[0] == "attr":
            system.state = UnitArray(vals, pre[2]) if pre[1] == "UnitArray" else list(vals)
            system.chemostats = list(flags)
        elif pre[0] == "set_state":
            system.set_state(0, 0, UnitValue(3, "mol"))
            system.set_state(len(base["species"]) - 1, D.ncells(base) - 1, 7)
            system.set_chemostat(0, 0, 1 - int(system.get_chemostat(0, 0)))
        elif pre[0] == "reset_state":
            system.reset_state()
            system.reset_chemostats()
    if pre[0] in ("ctor", "attr") and uq.sys_of(system.state.units)[2] != D.USYS[base["net_us"]][2]:
        stats["prestate_in_foreign_quantity_unit"] = stats.get("prestate_in_foreign_quantity_unit", 0) + 1
    if case["edit"] == "density-scalar":
        net.species[0].density = 211
    elif case["edit"] == "density-dict":
        net.species[1].density = {base["envs"][0]: 223, "default": "227 nM"}
    system.set_default_state()
    system.set_default_chemostats()
    stats["regenerations"] = stats.get("regenerations", 0) + 1
    model = live_model(base, net)
    sub = []
    check_defaults(model, system, sub, stats, site="x")
    getter_pass(model, net, system, sub, stats, forms="species", tag="regenerated")
    seen = set()
    for k, w in sub:
        p = k.split(":")
        cls = p[1] if p[1].startswith("get_") else ("chemostats" if "chemostats" in p else "state")
        kk = "C13:prestate:%s:%s:%s" % (case["pre"], case["edit"], cls)
        if kk not in seen:
            seen.add(kk)
            out.append((kk, "state held before = %s, edit = %s, then set_default_state() + set_default_chemostats(): %s" % (case["pre"], case["edit"], w)))


SPACE_OPS = {
    "graph": ["node0.env+1", "node1.env+1", "node2.env+1", "node0.vol=bare", "node1.vol=text", "node2.vol=uv", "node1.us", "space.us"],
    "grid": ["cell_env=map", "cell_env=scalar", "cell_env[1]+1", "cell_env[3]+1", "cell_vol=bare", "cell_vol=text", "cell_vol=uv",
             "space.us", "boundary"],
}
SPACE_ROUTES = {"graph": ["direct", "from_dict", "grid_to_graph"], "grid": ["direct", "from_dict"]}


def space_dict(case):
    """Dictionary form of a space description (bare / text quantities only)."""
    def jq(q):
        return "%r %s" % (q[1], q[2]) if isinstance(q, (list, tuple)) else q
    sp = case["space"]
    if sp["type"] == "grid":
        return {"type": "grid", "w": sp["w"], "h": sp["h"], "d": sp["d"], "cell_env": list(sp["env"]), "cell_volume": jq(sp["vol"]),
                "units": uq.sysdict(D.USYS[case["space_us"]])}
    return {"type": "graph", "units": uq.sysdict(D.USYS[case["space_us"]]), "edges": [],
            "nodes": [{"volume": jq(nd["vol"]), "environment": nd["env"], "units": uq.sysdict(D.USYS[nd["us"]])} for nd in sp["nodes"]]}


def live_space(model, space):
    """The space description as its public getters report it NOW (get_cell_env(i), get_cell_vol(i))."""
    m = dict(model)
    n = space.size()
    envs = [int(space.get_cell_env(i)) for i in range(n)]
    vols = [["si", uq.si_value(space.get_cell_vol(i)), "volume"] for i in range(n)]
    if type(space) is RDGridSpace and all(v == vols[0] for v in vols):
        m["space"] = {"type": "grid", "w": space.w, "h": space.h, "d": space.d, "env": envs, "vol": vols[0]}
    else:
        m["space"] = {"type": "graph", "nodes": [{"vol": v, "env": e, "us": 0} for v, e in zip(vols, envs)]}
    m["space_us"] = 0
    return m


def space_apply(op, space):
    if op.startswith("node"):
        k = int(op[4])
        nd = space.nodes[k]
        if op.endswith(".env+1"):
            nd.environment = (nd.environment + 1) % 3
        elif op.endswith(".vol=bare"):
            nd.volume = 13
        elif op.endswith(".vol=text"):
            nd.volume = "17 fL"
        elif op.endswith(".vol=uv"):
            nd.volume = UnitValue(19, "µm3")
        elif op.endswith(".us"):
            nd.units_system = mk_us(2)
        else:
            raise ValueError(op)
    elif op == "space.us":
        space.units_system = mk_us(1)
    elif op == "cell_env=map":
        space.cell_env = [(int(e) + 1) % 3 for e in space.cell_env]
    elif op == "cell_env=scalar":
        space.cell_env = 2
    elif op.startswith("cell_env["):
        k = int(op[9])
        arr = space.cell_env
        arr[k] = (int(arr[k]) + 1) % 3
    elif op == "cell_vol=bare":
        space.cell_vol = 13
    elif op == "cell_vol=text":
        space.cell_vol = "17 fL"
    elif op == "cell_vol=uv":
        space.cell_vol = UnitValue(19, "µm3")
    elif op == "boundary":
        space.set_boundary_conditions({"x": "periodical"})
    else:
        raise ValueError(op)


def _spaceedit_run(case, out, stats):
    kind, route = case["kind"], case["route"]
    base = hist_base("grid" if (kind == "grid" or route == "grid_to_graph") else "graph")
    net = build_network(base)
    if route == "direct":
        space = build_space(base)
    elif route == "from_dict":
        space = rdspace_from_dict(space_dict(base))
    else:
        space = grid_to_graph(build_space(base))
    us = mk_us(base["sys_us"])
    # the space has been read before it is edited
    existing = RDSystem(net, space, units_system=us)
    RDSystem(net, space, units_system=us)
    space.get_cell_env_array()
    space.get_cell_vol_array()
    for op in case["ops"]:
        space_apply(op, space)
    stats["space_edits"] = stats.get("space_edits", 0) + len(case["ops"])
    model = live_space(live_model(base, net), space)
    if type(space) is RDGraphSpace and [nd.environment for nd in space.nodes] != [D.cell_env(model, c) for c in range(space.size())]:
        stats["space_getters_disagree"] = stats.get("space_getters_disagree", 0) + 1
    hname = ",".join(case["ops"]) if case["ops"] else "none"
    for sync in ("new-system", "regenerate"):
        if sync == "new-system":
            sysx = RDSystem(net, space, units_system=us)
        else:
            existing.set_default_state()
            existing.set_default_chemostats()
            sysx = existing
        sub = []
        check_defaults(model, sysx, sub, stats, site="x")
        getter_pass(model, net, sysx, sub, stats, forms="one", tag="after-space-edit")
        seen = set()
        for k, w in sub:
            p = k.split(":")
            cls = "chemostats" if ("chemostats" in p or p[1] == "get_chemostat") else "state"
            kk = "C13:space-edit:%s:%s:%s:%s:%s" % (kind, route, hname, sync, cls)
            if kk not in seen:
                seen.add(kk)
                out.append((kk, "%s space (%s) after %s, %s: %s" % (kind, route, hname, sync, w)))


def _case_spaceedit(case, out, stats):
    """Only minimal violating edit sequences are reported."""
    mine = []
    _spaceedit_run(case, mine, stats)
    ops = list(case["ops"])
    if mine and ops:
        for k in range(len(ops)):
            sub = dict(case)
            sub["ops"] = ops[:k] + ops[k + 1:]
            inner = []
            try:
                _spaceedit_run(sub, inner, {})
            except Exception as e:
                inner = [("x", str(e))]
            if inner:
                stats["space_edit_sequences_not_minimal"] = stats.get("space_edit_sequences_not_minimal", 0) + 1
                return
    out.extend(mine)


# ---- two systems: a write to one system's entry is a write to exactly that entry -------------------------

TWO_ROUTES = ["ctor:state", "attr:state", "ctor:chemostats", "attr:chemostats", "ctor:both", "copy", "copy-of-copy", "same-network",
              "deepcopy-net-same-space"]


def _case_two(case, out, stats):
    """System B is derived from system A through the library's own API (A.state / A.chemostats handed to B's
    constructor or attributes, A.copy(), a second system on the same network). set_state / set_chemostat of
    EVERY entry of the writer must change exactly that entry of the writer - and no entry of the other system:
    its raw arrays and what its getters return stay what they were."""
    base = hist_base(case["start"])
    net, space, a = build(base)
    us = mk_us(base["sys_us"])
    route = case["route"]
    if route == "ctor:state":
        b = RDSystem(net, space, state=a.state, units_system=us)
    elif route == "attr:state":
        b = RDSystem(net, space, units_system=us)
        b.state = a.state
    elif route == "ctor:chemostats":
        b = RDSystem(net, space, chemostats=a.chemostats, units_system=us)
    elif route == "attr:chemostats":
        b = RDSystem(net, space, units_system=us)
        b.chemostats = a.chemostats
    elif route == "ctor:both":
        b = RDSystem(net, space, state=a.state, chemostats=a.chemostats, units_system=us)
    elif route == "copy":
        b = a.copy()
    elif route == "copy-of-copy":
        b = a.copy().copy()
    elif route == "same-network":
        b = RDSystem(net, space, units_system=us)
    else:
        b = RDSystem(net.copy(), space, units_system=us)
    writer, other = (b, a) if case["writer"] == "derived" else (a, b)
    wnet = writer.network
    nsp, nc = len(base["species"]), D.ncells(base)
    n = nsp * nc
    snap = _snapshot(other)
    scale = si.si_scale(D.USYS[base["sys_us"]], (0, 0, 1))
    reported = set()
    for idx in range(n):
        s, c = divmod(idx, nc)
        sfn, sfv = species_forms(wnet, s)[idx % 3]
        cfs = cell_forms(base, c)
        cfn, cfv = cfs[idx % len(cfs)]
        w0 = _snapshot(writer)
        v = 9001 + idx
        writer.set_state(sfv, cfv, v)
        writer.set_chemostat(sfv, cfv, 1 - w0[1][idx])
        stats["set_calls"] = stats.get("set_calls", 0) + 2
        w1 = _snapshot(writer)
        okw = (rel_err(w1[0][idx], F(v) * scale) <= TOL and w1[1][idx] == 1 - w0[1][idx]
               and all(w1[0][j] == w0[0][j] and w1[1][j] == w0[1][j] for j in range(n) if j != idx))
        if not okw and "w" not in reported:
            reported.add("w")
            out.append(("C13:two-systems:%s:%s-writes:own-entry" % (route, case["writer"]),
                        "set_state / set_chemostat of entry %d of the writer did not change exactly that entry" % idx))
        now = _snapshot(other)
        for what, k in (("state", 0), ("chemostats", 1)):
            if now[k] != snap[k] and what not in reported:
                reported.add(what)
                j = [i for i in range(n) if now[k][i] != snap[k][i]]
                g = other.get_state(s, c) if what == "state" else other.get_chemostat(s, c)
                out.append(("C13:two-systems:%s:%s-writes:other-system-%s-changed" % (route, case["writer"], what),
                            "B derived from A by %s; %s(species %d by %s, cell %d by %s) on the %s system changed entries %r of the "
                            "OTHER system's %s (its get now returns %s)"
                            % (route, "set_state" if what == "state" else "set_chemostat", s, sfn, c, cfn, case["writer"], j, what, g)))
    # the system that was never written to still holds the defaults (A was generated, B was given A's defaults)
    check_defaults(base, other, out, stats, site="two-systems:%s:%s-writes:untouched-system" % (route, case["writer"]))


_SUBS = {"two": _case_two, "prestate": _case_prestate, "spaceedit": _case_spaceedit, "edit": _case_edit, "magnitude": _case_magnitude, "carrier": _case_carrier, "history": _case_history, "dict": _case_dict, "default": _case_default, "access": _case_access, "ops": _case_ops, "regen": _case_regen,
         "override": _case_override}


def check_case(case, stats=None):
    """One case; returns [(key, what)]."""
    out = []
    stats = {} if stats is None else stats
    try:
        _SUBS[case["sub"]](case, out, stats)
    except Exception as e:
        import traceback
        tb = traceback.extract_tb(e.__traceback__)
        where = "%s:%d" % (tb[-1].filename.rsplit("/", 1)[-1], tb[-1].lineno) if tb else "?"
        out.append(("C13:%s:%s:unexpected-exception" % (case["sub"], kind_of(case)),
                    "%s: %s (at %s)" % (type(e).__name__, e, where)))
    return out


# ---- alphabets ---------------------------------------------------------------------------------------

class Slots:
    """Hands out pairwise distinct positive quantities in rotating forms (bare int, text, bare dyadic
    float, UnitValue); form='bare' | 'str' | 'uv' forces one form."""

    def __init__(self, units, form="mixed", start=0):
        self.k = start
        self.units = units
        self.form = form

    def next(self, zero=False):
        k = self.k
        self.k += 1
        p = PRIMES[k % len(PRIMES)] + 100 * (k // len(PRIMES))
        v = 0 if zero else p
        unit = self.units[k % len(self.units)]
        form = self.form
        if form == "mixed":
            form = ("bare", "str", "barefloat", "uv")[k % 4]
        elif form == "mixedjson":
            form = ("str", "bare", "barefloat")[k % 3]
        if form == "bare":
            return v
        if form == "barefloat":
            return v + 0.5 if not zero else 0.0
        return [form, v, unit]


def dict_shapes(envs):
    """Every dict over the keys env_0..env_{nenv-1}, 'default': each key absent / present with a 'zero'
    value / present with a 'non-zero' value (3^(nenv+1)), as [(key, 0|1)]; plus the two scalars."""
    keys = _envs(envs) + ["default"]
    out = [("scalar", 0), ("scalar", 1)]
    for st in itertools.product((None, 0, 1), repeat=len(keys)):
        out.append(("dict", [(k, v) for k, v in zip(keys, st) if v is not None]))
    return out


def dens_from_shape(shape, slots):
    kind, body = shape
    if kind == "scalar":
        return slots.next(zero=(body == 0))
    return {k: slots.next(zero=(v == 0)) for k, v in body}


def flag_from_shape(shape, rot=0):
    kind, body = shape
    if kind == "scalar":
        return (bool(body), int(body))[rot % 2]
    return {k: (bool(v), int(v))[(rot + j) % 2] for j, (k, v) in enumerate(body)}


KINDS = ("scalar", "full", "partial+default", "partial")


def dens_kind(kind, i, envs, slots):
    envs = _envs(envs)
    nenv = len(envs)
    if kind == "scalar":
        return slots.next()
    if kind == "full":
        return {e: slots.next(zero=(nenv >= 2 and j == (i + 1) % nenv)) for j, e in enumerate(envs)}
    if kind == "partial+default":
        d = {e: slots.next() for j, e in enumerate(envs) if j != i % nenv}
        d["default"] = slots.next()
        return d
    return {e: slots.next() for j, e in enumerate(envs) if j != (i + 1) % nenv}


def flag_kind(kind, i, envs):
    envs = _envs(envs)
    nenv = len(envs)
    if kind == "scalar":
        return bool((i + 1) % 2)
    if kind == "full":
        return {e: bool((i + j) % 2) for j, e in enumerate(envs)}
    if kind == "partial+default":
        d = {e: bool(i % 2) for j, e in enumerate(envs) if j != i % nenv}
        d["default"] = not bool(i % 2)
        return d
    return {e: (True, 1)[j % 2] for j, e in enumerate(envs) if j != (i + 1) % nenv}


def network_part(envs, dkinds, ckinds, roles, form="mixed"):
    envs = _envs(envs)
    slots = Slots(DENS_UNITS, form)
    species = []
    for i, (dk, ck) in enumerate(zip(dkinds, ckinds)):
        species.append({"label": LABELS[i], "us": (roles[0] + i) % 3,
                        "density": dens_kind(dk, i, envs, slots), "chstt": flag_kind(ck, i, envs)})
    return {"envs": envs, "species": species, "net_us": roles[1], "sys_us": roles[4]}


def grid_space(w, h, d, envmap, roles, form="mixed", k=0):
    vol = Slots(VOL_UNITS, form, start=k).next()
    return {"space": {"type": "grid", "w": w, "h": h, "d": d, "env": list(envmap), "vol": vol}, "space_us": roles[2]}


def graph_space(envmap, roles, form="mixed"):
    slots = Slots(VOL_UNITS, form, start=1)
    nodes = [{"vol": slots.next(), "env": e, "us": (roles[3] + j) % 3} for j, e in enumerate(envmap)]
    return {"space": {"type": "graph", "nodes": nodes}, "space_us": roles[2]}


GRIDS = [(w, h, d) for d in (1, 2, 3) for h in (1, 2, 3) for w in (1, 2, 3)]


def structured_maps(w, h, d, nenv):
    n = w * h * d
    if nenv == 1:
        return [[0] * n]
    co = [D.cell_coords(c, w, h) for c in range(n)]
    cand = [[x % nenv for x, y, z in co], [y % nenv for x, y, z in co], [z % nenv for x, y, z in co],
            [(x + y + z) % nenv for x, y, z in co], [c % nenv for c in range(n)],
            [(nenv - 1) if c == (2 * n) // 3 else 0 for c in range(n)]]
    out = []
    for m in cand:
        if m not in out:
            out.append(m)
    return out


def all_maps(n, nenv):
    return [list(m) for m in itertools.product(range(nenv), repeat=n)]


def small_spaces(nenv, max_cells, max_nodes):
    """('grid', (w,h,d), map) for every grid with <= max_cells cells and every environment map;
    ('graph', n, map) for every graph with <= max_nodes nodes and every environment map."""
    out = []
    for (w, h, d) in GRIDS:
        if w * h * d <= max_cells:
            for m in all_maps(w * h * d, nenv):
                out.append(("grid", (w, h, d), m))
    for n in range(1, max_nodes + 1):
        for m in all_maps(n, nenv):
            out.append(("graph", n, m))
    return out


def space_part(sp, roles, form="mixed", k=0):
    if sp[0] == "grid":
        return grid_space(sp[1][0], sp[1][1], sp[1][2], sp[2], roles, form, k)
    return graph_space(sp[2], roles, form)


def merge_case(sub, netp, spp, **extra):
    c = {"sub": sub}
    c.update(netp)
    c.update(spp)
    c.update(extra)
    return c


# ---- sub-spaces ----------------------------------------------------------------------------------------
# each sub-space = (name, list of compact seeds, expand(seed) -> case)

def sp_shapes(tier):
    """S1: one species; every density dict shape and every flag dict shape x every environment map of the
    small spaces."""
    max_cells, max_nodes = (4, 3) if tier == "thorough" else (3, 2)
    seeds = []
    nlists = 2 if tier == "thorough" else 1
    for nenv in (1, 2, 3):
        nshapes = len(dict_shapes(nenv))
        for li in range(nlists):
            for si_, sp in enumerate(small_spaces(nenv, max_cells, max_nodes)):
                for j in range(nshapes):
                    seeds.append((nenv, li, si_, j))
    cache = {}

    def expand(seed):
        nenv, li, si_, j = seed
        envs = ENV_LISTS[nenv][li]
        if (nenv, li) not in cache:
            cache[(nenv, li)] = (dict_shapes(envs), small_spaces(nenv, max_cells, max_nodes))
        shapes, spaces = cache[(nenv, li)]
        roles = GENERIC[(si_ + j) % 3]
        jc = (j * 7 + 5) % len(shapes)          # bijection (len is 11, 29, 83): every flag shape too
        netp = {"envs": list(envs), "net_us": roles[1], "sys_us": roles[4],
                "species": [{"label": "A", "us": roles[0], "density": dens_from_shape(shapes[j], Slots(DENS_UNITS, start=j)),
                             "chstt": flag_from_shape(shapes[jc], rot=j)}]}
        return merge_case("default", netp, space_part(spaces[si_], roles, k=si_), rot=j)
    name = ("shapes: 1 species, all %s density shapes x all flag shapes (absent / zero / non-zero per key, keys = environments + "
            "'default', + scalars) for 1,2,3 environments (label lists with the blank label: [\"\"], [\"\",in], [in,\"\",out]%s) x EVERY environment map of grids with <= %d cells and graphs with <= %d nodes"
            % ("11/29/83", "" if tier != "thorough" else "; and cyt,mem,ext", max_cells, max_nodes))
    return name, seeds, expand


def sp_layout(tier):
    """S2: 1-3 species x kind assignments x every grid shape w,h,d <= 3 with structured maps, graphs with
    every map."""
    seeds = []
    max_nodes = 4 if tier == "thorough" else 3
    for nenv in ((1, 2, 3) if tier == "thorough" else (1, 3)):
        spaces = []
        for (w, h, d) in GRIDS:
            for m in structured_maps(w, h, d, nenv):
                spaces.append(("grid", (w, h, d), m))
        for n in range(1, max_nodes + 1):
            for m in all_maps(n, nenv):
                spaces.append(("graph", n, m))
        for nsp in (1, 2, 3):
            for dk in itertools.product(range(4), repeat=nsp):
                if tier != "thorough" and nsp == 3 and dk[2] != (dk[0] + 2 * dk[1] + 1) % 4:
                    continue
                for si_, sp in enumerate(spaces):
                    seeds.append((nenv, dk, sp, si_))

    def expand(seed):
        nenv, dk, sp, si_ = seed
        roles = GENERIC[(si_ + sum(dk)) % 3]
        ck = [(k + 1 + i) % 4 for i, k in enumerate(dk)]
        netp = network_part(ENV_LISTS[nenv][(si_ + sum(dk)) % 2], [KINDS[k] for k in dk], [KINDS[k] for k in ck], roles)
        return merge_case("default", netp, space_part(sp, roles, k=si_), rot=si_)
    name = ("layout: 1-3 species, density kind per species in {scalar, full dict, partial+default, partial} (4^n%s; flag kinds "
            "rotated), %s environments (label lists with / without the blank label alternately) x all 27 grids w,h,d<=3 with structured maps (stripes x/y/z, checker, linear cycle, "
            "one odd cell) + graphs of 1-%d nodes (distinct per-node volumes and units) with every environment map"
            % ("" if tier == "thorough" else ", 16 of 64 for 3 species", "1-3" if tier == "thorough" else "1 and 3", max_nodes))
    return name, seeds, expand


def sp_units(tier):
    """S3: 3^5 unit-system role combinations x value forms x reduced shapes, all address forms."""
    shapes = [("grid", (2, 1, 2), [0, 1, 1, 0]), ("grid", (1, 3, 1), [1, 0, 1]), ("graph", 3, [1, 0, 1]), ("graph", 2, [0, 1])]
    seeds = []
    for roles in itertools.product(range(3), repeat=5):
        for form in ("bare", "str", "uv", "mixed"):
            for shi, sh in enumerate(shapes):
                if sh[0] == "grid" and roles[3] != 0:
                    continue    # node role does not exist on grids: 3^4 combinations there
                seeds.append((roles, form, shi))

    def expand(seed):
        roles, form, shi = seed
        netp = network_part(ENV_LISTS[2][sum(roles) % 2], ["partial+default", "full"] if shi % 2 == 0 else ["scalar", "partial"],
                            ["full", "partial+default"], roles, form)
        return merge_case("default", netp, space_part(shapes[shi], roles, form, k=shi), getters="all")
    name = ("units: unit systems {default, (dm,min,µmol), (cm,ms,nmol)} chosen independently for species (rotated per species), "
            "network, space, graph nodes (rotated per node), system: 3^5 on 2 graphs, 3^4 on 2 grids x value forms "
            "{bare numbers, quantity texts, UnitValue objects, mixed}")
    return name, seeds, expand


def sp_access(tier):
    """S4: every address form on every entry of every grid shape / graph size x 1-3 species."""
    seeds = []
    for nsp in (1, 2, 3):
        for (w, h, d) in GRIDS:
            seeds.append((nsp, ("grid", (w, h, d), structured_maps(w, h, d, 2)[-1])))
        for n in range(1, 6):
            seeds.append((nsp, ("graph", n, [c % 2 for c in range(n)])))

    def expand(seed):
        nsp, sp = seed
        roles = GENERIC[nsp % 3]
        netp = network_part(ENV_LISTS[2][nsp % 2], [KINDS[(i + 1) % 4] for i in range(nsp)], [KINDS[(i + 2) % 4] for i in range(nsp)], roles)
        return merge_case("access", netp, space_part(sp, roles, k=nsp))
    name = ("accessors: get_state / get_chemostat of EVERY (species, cell) by species label|index|object x cell linear index|tuple|"
            "list|object with x,y,z, on the default arrays and on arrays with pairwise distinct amounts / binary-digit flag "
            "patterns: all 27 grids + graphs of 1-5 nodes x 1-3 species")
    return name, seeds, expand


def small_systems(tier):
    """The small systems of the E2 part: (nsp, space)."""
    out = [(1, ("grid", (1, 1, 1), [0])),
           (1, ("grid", (2, 1, 1), [0, 1])),
           (2, ("grid", (1, 1, 2), [1, 0])),
           (2, ("graph", 3, [0, 1, 1])),
           (3, ("graph", 2, [1, 0])),
           (3, ("grid", (1, 2, 1), [0, 1]))]
    if tier == "thorough":
        out += [(2, ("grid", (3, 2, 1), [0, 1, 0, 1, 1, 0])), (3, ("grid", (2, 1, 2), [0, 0, 1, 0]))]
    return out


def _small_envs(nsp, sp):
    """Label list of a small system: alternately with and without the blank label."""
    return ENV_LISTS[2][(nsp + len(sp[2])) % 2]


def _small_case(sub, nsp, sp, roles, **extra):
    netp = network_part(_small_envs(nsp, sp), [KINDS[(i + 2) % 4] for i in range(nsp)], [KINDS[(i + 3) % 4] for i in range(nsp)], roles)
    return merge_case(sub, netp, space_part(sp, roles, k=nsp), **extra)


SET_VALUES = {  # vkind -> value
    "bare-int": 1009, "bare-float": 0.25, "uv-mol": ["uv", 3, "mol"], "uv-nmol": ["uv", 7, "nmol"],
    "uv-molecule": ["uv", 11, "molecule"], "uv-fmol": ["uv", 2.5, "fmol"],
}
SET_VALUES2 = {"bare-int": 2003, "uv-mol": ["uv", 13, "nmol"]}
FLAG_VALUES = {"1": 1, "0": 0, "True": True, "False": False}


def _form_names(sp):
    return [(a, b) for a in ("label", "index", "object") for b in (("index", "tuple", "list", "object") if sp[0] == "grid" else ("index",))]


def sp_set1(tier):
    """S5: one set call: every op kind x every entry x every address form x (system units x network units)."""
    systems = small_systems(tier)
    seeds = []
    upairs = [(a, b) for a in range(3) for b in range(3)] if tier == "thorough" else [(0, 0), (0, 1), (1, 2), (2, 0), (1, 1)]
    for syi, (nsp, sp) in enumerate(systems):
        n = nsp * (sp[1][0] * sp[1][1] * sp[1][2] if sp[0] == "grid" else sp[1])
        nc = n // nsp
        for sys_us, net_us in upairs:
            if True:
                for e in range(n):
                    for (sf, cf) in _form_names(sp):
                        for vk in list(SET_VALUES) + ["flag:" + k for k in FLAG_VALUES]:
                            seeds.append((syi, sys_us, net_us, e, sf, cf, vk))

    def expand(seed):
        syi, sys_us, net_us, e, sf, cf, vk = seed
        nsp, sp = systems[syi]
        roles = (1, net_us, 2, 0, sys_us)
        nc = (sp[1][0] * sp[1][1] * sp[1][2] if sp[0] == "grid" else sp[1])
        s, c = divmod(e, nc)
        if vk.startswith("flag:"):
            op = {"op": "set_chemostat", "species": s, "cell": c, "spform": sf, "cellform": cf, "vkind": vk[5:], "value": FLAG_VALUES[vk[5:]]}
        else:
            op = {"op": "set_state", "species": s, "cell": c, "spform": sf, "cellform": cf, "vkind": vk, "value": SET_VALUES[vk]}
        return _small_case("ops", nsp, sp, roles, ops=[op], rot=e)
    name = ("set x1: %d small systems x (system units, network units = storage units) pairs (%d of 9) x EVERY entry x every address form x "
            "{6 set_state value kinds (bare int/float in the system's units, UnitValue in mol/nmol/molecule/fmol), "
            "4 set_chemostat values}, then full read-back" % (len(systems), len(upairs)))
    return name, seeds, expand


def sp_set2(tier):
    """S6: every ordered pair of set calls over all entries (address forms rotated), full read-back."""
    systems = small_systems(tier)
    kinds = ["bare-int", "uv-mol", "flag:1", "flag:0"]
    seeds = []
    for syi, (nsp, sp) in enumerate(systems):
        n = nsp * (sp[1][0] * sp[1][1] * sp[1][2] if sp[0] == "grid" else sp[1])
        for e1 in range(n):
            for k1 in kinds:
                for e2 in range(n):
                    for k2 in kinds:
                        seeds.append((syi, e1, k1, e2, k2))

    def expand(seed):
        syi, e1, k1, e2, k2 = seed
        nsp, sp = systems[syi]
        roles = (1, 2, 2, 0, 1) if (e1 + e2) % 2 == 0 else (2, 0, 1, 1, 2)
        nc = (sp[1][0] * sp[1][1] * sp[1][2] if sp[0] == "grid" else sp[1])
        forms = _form_names(sp)
        ops = []
        for pos, (e, vk) in enumerate(((e1, k1), (e2, k2))):
            s, c = divmod(e, nc)
            sf, cf = forms[(e1 * 5 + e2 * 3 + pos * 7 + kinds.index(vk)) % len(forms)]
            if vk.startswith("flag:"):
                ops.append({"op": "set_chemostat", "species": s, "cell": c, "spform": sf, "cellform": cf, "vkind": vk[5:],
                            "value": FLAG_VALUES[vk[5:]]})
            else:
                val = (SET_VALUES if pos == 0 else SET_VALUES2)[vk]
                ops.append({"op": "set_state", "species": s, "cell": c, "spform": sf, "cellform": cf, "vkind": vk, "value": val})
        return _small_case("ops", nsp, sp, roles, ops=ops, rot=e1 + e2)
    name = ("set x2: %d small systems x ALL ordered pairs of (entry, {set_state bare, set_state UnitValue, set_chemostat 1, "
            "set_chemostat 0}) (second call with a different value; address forms rotated), then full read-back" % len(systems))
    return name, seeds, expand


EDITS = [
    {"name": "density-scalar", "density": 101},
    {"name": "density-text", "density": ["str", 103, "nM"]},
    {"name": "density-dict+default", "density": {"$0": 107, "default": ["str", 109, "µM"]}},
    {"name": "density-partial", "density": {"$1": ["uv", 113, "molecule/µm3"]}},
    {"name": "density-zero", "density": 0},
    {"name": "chstt-true", "chstt": True},
    {"name": "chstt-false", "chstt": False},
    {"name": "chstt-dict", "chstt": {"$1": True}},
    {"name": "chstt-dict+default", "chstt": {"$0": False, "default": True}},
    {"name": "both", "density": {"default": 127}, "chstt": {"$0": 1, "$1": 0}},
]


def sp_regen(tier):
    systems = small_systems(tier)
    seeds = []
    for syi, (nsp, sp) in enumerate(systems):
        for i in range(nsp):
            for ei in range(len(EDITS)):
                for dirty in (0, 1):
                    for ri in range(3):
                        seeds.append((syi, i, ei, dirty, ri))

    def expand(seed):
        syi, i, ei, dirty, ri = seed
        nsp, sp = systems[syi]
        envs = _small_envs(nsp, sp)
        ed = {k: ({kk.replace("$0", envs[0]).replace("$1", envs[1]): vv for kk, vv in v.items()} if isinstance(v, dict) else v)
              for k, v in EDITS[ei].items()}
        ed["species"] = i
        ed["dirty"] = dirty
        return _small_case("regen", nsp, sp, GENERIC[ri], edit=ed)
    name = ("regenerate: %d small systems x each species x %d edits of density / chstt (scalar, text, dict+default, partial, zero, "
            "flags) x {fresh, after a set_state+set_chemostat} x 3 unit combinations, then set_default_state() / "
            "set_default_chemostats()" % (len(systems), len(EDITS)))
    return name, seeds, expand


def sp_override(tier):
    systems = small_systems(tier)
    seeds = []
    for syi, (nsp, sp) in enumerate(systems):
        for r in range(1, nsp + 1):
            for subset in itertools.combinations(range(nsp), r):
                for what in ("state", "chemostats"):
                    for route in ("constructor", "set_default"):
                        seeds.append((syi, subset, what, route))

    def expand(seed):
        syi, subset, what, route = seed
        nsp, sp = systems[syi]
        return _small_case("override", nsp, sp, GENERIC[len(subset) % 3],
                           override={"species": list(subset), "what": what, "route": route})
    name = ("override: %d small systems x every non-empty subset of species given an explicit row through "
            "RDSystem(state=dict) / RDSystem(chemostats=dict) / set_default_state(dict) / set_default_chemostats(dict)" % len(systems))
    return name, seeds, expand


def sp_dict(tier):
    shapes = [("grid", (2, 1, 2), [0, 1, 1, 0]), ("grid", (1, 3, 1), [1, 0, 1]), ("grid", (3, 2, 1), [0, 1, 0, 0, 0, 1])]
    nets = [(["partial+default", "full"], ["full", "partial+default"]), (["scalar", "partial"], ["partial", "scalar"]),
            (["full", "partial+default", "partial"], ["partial+default", "scalar", "full"])]
    seeds = []
    if tier != "thorough":
        shapes = shapes[:2]
    for roles4 in itertools.product(range(3), repeat=4):
        for form in ("bare", "str", "mixedjson"):
            for shi in range(len(shapes)):
                for ni in range(len(nets)):
                    seeds.append((roles4, form, shi, ni))

    # graph spaces with explicit units, and "units" left out (inherited) at the space+nodes level / at every level
    gshapes = [("grid", (2, 1, 2), [0, 1, 1, 0]), ("grid", (1, 3, 1), [1, 0, 1]), ("graph", 3, [1, 0, 1]), ("graph", 2, [0, 1])]
    for omit in ((), ("space", "nodes"), ("network", "species", "space", "nodes"), ("nodes",), ("species",)):
        for sys_us in range(3):
            for other in range(3):
                for form in ("bare", "str", "mixedjson"):
                    for shi in range(len(gshapes)):
                        if omit == () and gshapes[shi][0] == "grid":
                            continue        # explicit-units grids are enumerated above
                        if omit == ("nodes",) and gshapes[shi][0] == "grid":
                            continue
                        for ni in range(len(nets)):
                            seeds.append(("inherit", omit, sys_us, other, form, shi, ni))

    # every way of writing the "units" key at every nested level, one dictionary and separate files
    UM = ("dict", "absent", "inherit", "default")
    mshapes = [("grid", (2, 1, 2), [0, 1, 1, 0]), ("graph", 3, [1, 0, 1])]
    for mnet in UM:
        for mspe in UM:
            for mspa in UM:
                for mnod in UM:
                    for sys_us in range(3):
                        # a species that inherits under a network whose units differ from the system's is ambiguous
                        # (documentation: the system's; code: the network's) - not enumerated
                        net_res = {"dict": (sys_us + 1) % 3, "default": 0}.get(mnet, sys_us)
                        if mspe in ("absent", "inherit") and net_res != sys_us:
                            continue
                        for shi in range(2):
                            if mshapes[shi][0] == "grid" and mnod != "dict":
                                continue
                            for form in ("bare", "mixedjson"):
                                for files in ("one-dict", "network+space"):
                                    seeds.append(("modes", (mnet, mspe, mspa, mnod), sys_us, shi, form, files))
    for sys_us in range(3):
        for shi in range(2):
            for mode in ("absent", "inherit", "default"):
                for files in ("network", "space"):
                    seeds.append(("modes", (mode, mode, mode, mode), sys_us, shi, "bare", files))

    def expand(seed):
        if seed[0] == "modes":
            _, (mnet, mspe, mspa, mnod), sys_us, shi, form, files = seed
            net_us = {"dict": (sys_us + 1) % 3, "default": 0}.get(mnet, sys_us)
            sp_us = {"dict": (sys_us + 2) % 3, "default": 0}.get(mspe, net_us)
            space_us = {"dict": (sys_us + 2) % 3, "default": 0}.get(mspa, sys_us)
            node_us = {"dict": (sys_us + 1) % 3, "default": 0}.get(mnod, space_us)
            roles = (sp_us, net_us, space_us, node_us, sys_us)
            ni = (sys_us + shi) % len(nets)
            netp = network_part(ENV_LISTS[2][(ni + shi) % 2], nets[ni][0], nets[ni][1], roles, form)
            spp = space_part(mshapes[shi], roles, form, k=shi)
            if mspe != "dict":
                for spc in netp["species"]:
                    spc["us"] = sp_us
            if mnod != "dict" and spp["space"]["type"] == "graph":
                for nd in spp["space"]["nodes"]:
                    nd["us"] = node_us
            return merge_case("dict", netp, spp, units_mode={"network": mnet, "species": mspe, "space": mspa, "nodes": mnod}, files=files)
        if seed[0] == "inherit":
            _, omit, sys_us, other, form, shi, ni = seed
            # levels that keep their own "units" use (other, other+1, ...); omitted levels resolve to their parent's
            # species without units under a network WITH units: the documentation names the system, the code the
            # network, as the parent - made unambiguous by giving that network the system's units
            net_us = sys_us if ("network" in omit or "species" in omit) else other
            sp_us = net_us if "species" in omit else (other + 1) % 3
            space_us = sys_us if "space" in omit else (other + 2) % 3
            node_us = space_us if "nodes" in omit else other
            roles = (sp_us, net_us, space_us, node_us, sys_us)
            netp = network_part(ENV_LISTS[2][(ni + shi) % 2], nets[ni][0], nets[ni][1], roles, form)
            spp = space_part(gshapes[shi], roles, form, k=shi)
            if "species" in omit:
                for spc in netp["species"]:
                    spc["us"] = net_us
            if "nodes" in omit and spp["space"]["type"] == "graph":
                for nd in spp["space"]["nodes"]:
                    nd["us"] = space_us
            return merge_case("dict", netp, spp, omit_units=list(omit))
        (a, b, c, e), form, shi, ni = seed
        roles = (a, b, c, 0, e)
        netp = network_part(ENV_LISTS[2][(ni + shi) % 2], nets[ni][0], nets[ni][1], roles, form)
        return merge_case("dict", netp, space_part(shapes[shi], roles, form, k=shi))
    name = ("from_dict: systems built by rdsystem_from_dict from the dictionary form without state / chemostats: (a) explicit "
            "units at every level: 3^4 unit-system roles (species, network, space, system) x value forms {bare, text, mixed} x "
            "%d grids x 3 networks; (b) grids AND graphs with the \"units\" key left out (documented default \"inherit\") at {no level "
            "(graphs), space+nodes, every level below the system, nodes only, species only} x system units (3) x units of the "
            "remaining levels (3) x value forms x 2 grids + 2 graphs x 3 networks; (c) the \"units\" key of network / species / space / node written as {dictionary, absent, "
            "\"inherit\", \"default\"} independently (4^4 on a graph, 4^3 on a grid; the ambiguous 'species inherits under a network "
            "with other units' excluded) x system units (3) x {bare, mixed} x {one dictionary, system.json + network.json + "
            "space.json loaded by load_rdsystem} + network-only / space-only files; all address forms" % len(shapes))
    return name, seeds, expand


# sp_override (RDSystem(state=dict) / set_default_state(dict)) is NOT claimed: the statement speaks of systems built
# without an explicit state and of regeneration; the override path is documented but broken on the pinned tree
# (rdsystem.py: `.len()` / `is_array`), which is noted in DESIGN.md as seen-but-outside-the-statement.
HIST_OPS3 = ["perm:rot", "perm:swap01", "insert-front", "remove-first", "env:rotate", "env:rename", "density:first",
             "space:graph", "regen-state", "new-system", "copy-net", "copy-system"]


def sp_history(tier):
    seeds = []
    for start in ("grid", "graph"):
        seeds.append((start, ()))
        for a in HIST_OPS:
            seeds.append((start, (a,)))
        for a in HIST_OPS:
            for b in HIST_OPS:
                seeds.append((start, (a, b)))
        if tier == "thorough":
            for h in itertools.product(HIST_OPS3, repeat=3):
                seeds.append((start, h))

    def expand(seed):
        return {"sub": "history", "start": seed[0], "ops": list(seed[1]), "envs": HIST_ENVS, "species": hist_base(seed[0])["species"],
                "space": HIST_SPACES[seed[0]]["space"], "space_us": HIST_SPACES[seed[0]]["space_us"], "net_us": 2, "sys_us": 1}
    name = ("history: ONE network / system object (3 species, environments [in,\"\",out], start space grid 2x1x2 | graph of 3 nodes): "
            "ALL sequences of <= 2 of %d documented mutations (net.species = permutation / insertion at front / append / removal, "
            "net.reactions =, net.environments = reorder / rename, species.density / chstt edits, system.space =, set_default_state(), "
            "set_default_chemostats(), new RDSystem on the same network, net.copy(), system.copy())%s; then on a NEW system and on the "
            "regenerated one: defaults vs the reference of the CURRENT content, every getter form, set of every entry by label / "
            "index / object, distinct-fill read-back, comparison with a fresh build, originals of copies untouched"
            % (len(HIST_OPS), " + all sequences of 3 over %d of them" % len(HIST_OPS3) if tier == "thorough" else ""))
    return name, seeds, expand


MAGNITUDES = ["1e-300", "1e-200", "1e-30", "1", "1e30", "1e200", "1e300"]
MANTISSAS = ["1", "2.5"]
LENGTHS = ["µm", "km", "fm", "nm", "dm"]


def sp_magnitude(tier):
    seeds = []
    for ls in LENGTHS:
        for lv in LENGTHS:
            for ln in ("µm", "km", "fm"):
                for mag in MAGNITUDES:
                    for man in MANTISSAS:
                        for kind in ("grid", "graph"):
                            for mode in ("construct", "regenerate"):
                                seeds.append((ls, lv, ln, mag, man, kind, mode))

    def expand(seed):
        ls, lv, ln, mag, man, kind, mode = seed
        e = mag[1:] if mag != "1" else "e0"
        v = float(man + e)
        us_s, us_v, us_n = D.LENGTH_US[ls], D.LENGTH_US[lv], D.LENGTH_US[ln]
        other = D.LENGTH_US[LENGTHS[(LENGTHS.index(lv) + 2) % len(LENGTHS)]]
        species = [{"label": "Ab", "us": us_s, "density": v, "chstt": False},
                   {"label": "A", "us": us_v, "density": {"in": ["str", 2 * v, "molecule/%s3" % ls], "default": 3 * v if ls == lv else 3.0},
                    "chstt": {"in": True}}]
        if kind == "grid":
            space = {"type": "grid", "w": 2, "h": 1, "d": 1, "env": [0, 1], "vol": 4}
        else:
            space = {"type": "graph", "nodes": [{"vol": 2, "env": 0, "us": us_v}, {"vol": ["str", 3, "%s3" % lv], "env": 1, "us": other}]}
        return {"sub": "magnitude", "mode": mode, "skip_nonnormal": True, "envs": ["out", "in"], "species": species, "net_us": us_n,
                "sys_us": 0, "space": space, "space_us": us_v if kind == "grid" else other}
    name = ("magnitude: densities {1, 2.5} x 10^{-300, -200, -30, 0, 30, 200, 300} molecule per (length unit)^3 (bare and text) x species "
            "length unit {µm, km, fm, nm, dm} x space / node length unit (same 5) x network length unit {µm, km, fm} x {grid, graph} x "
            "{at construction, after editing the densities + set_default_state()}; entries whose EXACT amount is not a normal double "
            "are skipped and counted")
    return name, seeds, expand


CARRIER_GRIDS = [(6, 7, 8), (8, 8, 8), (4, 5, 7)]


def sp_carrier(tier):
    seeds = [(g, ca, dt) for g in CARRIER_GRIDS for ca in CARRIERS for dt in CARRIER_DTYPES]

    def expand(seed):
        (w, h, d), ca, dt = seed
        n = w * h * d
        roles = (0, 0, 0, 0, 0)
        netp = network_part(["", "in"], ["full", "partial+default"], ["partial", "full"], roles)
        for i, spc in enumerate(netp["species"]):
            spc["us"] = 0
        c = merge_case("carrier", netp, grid_space(w, h, d, [(3 * i + i // 7) % 2 for i in range(n)], roles, form="bare"),
                       carrier=ca, dtype=dt)
        return c
    name = ("carrier: grids 6x7x8, 8x8x8, 4x5x7 x 2 species, EVERY cell addressed by {numpy array, tuple / list / x,y,z object of numpy "
            "scalars, numpy scalar linear index} of dtype {int8, uint8, int16, int32, int64} (where the values fit the dtype) through "
            "get_state / get_chemostat / set_state / set_chemostat: an accepted position must hit entry species*n + z*w*h + y*w + x "
            "(rejections are counted, not reported)")
    return name, seeds, expand


def sp_edit(tier):
    seeds = []
    for start in ("grid", "graph"):
        for i in range(3):
            for a in EDIT_OPS:
                seeds.append((start, i, (a,)))
            for a in EDIT_OPS:
                for b in EDIT_OPS:
                    seeds.append((start, i, (a, b)))

    def expand(seed):
        start, i, ops = seed
        base = hist_base(start)
        base.update({"sub": "edit", "start": start, "target": i, "ops": list(ops)})
        return base
    name = ("edit: ONE network (3 species with scalar / full / partial / partial+default density and chstt, environments [in,\"\",out]) on "
            "a grid 2x1x2 | graph of 3 nodes; each species x ALL sequences of <= 2 of %d ways of editing it: attribute assignment "
            "(scalar, dict, dict+default), IN-PLACE mutation of the dict returned by species.chstt / species.density (set / add / "
            "delete an environment key or 'default', clear, update; density values as UnitValue), in-place mutation of the dict "
            "object passed to the constructor / setter; then a NEW RDSystem and set_default_state() + set_default_chemostats(): "
            "both arrays = reference of what the species' public attributes report NOW" % len(EDIT_OPS))
    return name, seeds, expand


def sp_prestate(tier):
    seeds = [(start, nu, su, pre, ed) for start in ("grid", "graph") for nu in range(3) for su in range(3)
             for pre in PRE_STATES for ed in PRE_EDITS]

    def expand(seed):
        start, nu, su, pre, ed = seed
        base = hist_base(start)
        base.update({"sub": "prestate", "start": start, "net_us": nu, "sys_us": su, "pre": pre, "edit": ed})
        return base
    name = ("prestate: grid 2x1x2 | graph of 3 nodes x network units (3) x system units (3) x the state held BEFORE regeneration "
            "{generated default; explicit UnitArray in µmol / nmol / mol / molecule through RDSystem(state=) or system.state =; bare "
            "number list through either; after set_state / set_chemostat; after reset_state() / reset_chemostats()} (with an explicit "
            "chemostat list) x {no edit, density scalar edit, density dict edit}; then set_default_state() + set_default_chemostats(): "
            "raw array + its units and get_state (every species form) = density x volume")
    return name, seeds, expand


def sp_spaceedit(tier):
    seeds = []
    for kind in ("graph", "grid"):
        for route in SPACE_ROUTES[kind]:
            seeds.append((kind, route, ()))
            for a in SPACE_OPS[kind]:
                seeds.append((kind, route, (a,)))
            for a in SPACE_OPS[kind]:
                for b in SPACE_OPS[kind]:
                    seeds.append((kind, route, (a, b)))

    def expand(seed):
        kind, route, ops = seed
        base = hist_base("grid" if (kind == "grid" or route == "grid_to_graph") else "graph")
        base.update({"sub": "spaceedit", "kind": kind, "route": route, "ops": list(ops)})
        return base
    name = ("space-edit: a space that has ALREADY been read (two systems built on it, get_cell_env_array / get_cell_vol_array called) is "
            "edited through its public setters - graph (built directly | from its dictionary | by grid_to_graph): node.environment, "
            "node.volume (bare / text / UnitValue), node.units_system, space.units_system; grid (direct | from dictionary): cell_env = "
            "map / scalar, cell_env[i] in place, cell_vol = bare / text / UnitValue, units_system, set_boundary_conditions - ALL "
            "sequences of <= 2; then a NEW RDSystem and regeneration of the one built before: defaults follow what "
            "get_cell_env(i) / get_cell_vol(i) report NOW")
    return name, seeds, expand


def sp_two(tier):
    seeds = [(start, route, writer) for start in ("grid", "graph") for route in TWO_ROUTES for writer in ("derived", "original")]

    def expand(seed):
        base = hist_base(seed[0])
        base.update({"sub": "two", "start": seed[0], "route": seed[1], "writer": seed[2]})
        return base
    name = ("two-systems: system B derived from system A through the library's API {RDSystem(state=A.state), B.state = A.state, "
            "RDSystem(chemostats=A.chemostats), B.chemostats = A.chemostats, both, A.copy(), A.copy().copy(), second system on the "
            "same network, on a copy of the network} x writer {B, A} x grid | graph: set_state + set_chemostat of EVERY entry of the "
            "writer change exactly that entry of the writer and NO entry of the other system (raw arrays and getters)")
    return name, seeds, expand


SPACE_BUILDERS = [sp_shapes, sp_layout, sp_units, sp_access, sp_set1, sp_set2, sp_regen, sp_dict, sp_history, sp_magnitude, sp_carrier, sp_edit, sp_prestate, sp_spaceedit, sp_two]
CHUNK = {"sp_shapes": 400, "sp_layout": 60, "sp_units": 60, "sp_access": 2, "sp_set1": 400, "sp_set2": 300, "sp_regen": 60,
         "sp_override": 40, "sp_dict": 60, "sp_history": 12, "sp_magnitude": 150, "sp_carrier": 1, "sp_edit": 100, "sp_prestate": 40, "sp_spaceedit": 40, "sp_two": 3}

_SPACES = None


def _nontrivial(case, stats):
    sub = case["sub"]
    if sub == "ops":
        return stats.get("state_entries_changed", 0) + stats.get("flags_flipped", 0) > 0
    if sub == "history":
        return len(case["ops"]) > 0
    if sub == "edit":
        return stats.get("edits_applied", 0) > 0
    if sub == "two":
        return True
    if sub == "prestate":
        return case["pre"] != "default"
    if sub == "spaceedit":
        return len(case["ops"]) > 0
    if sub == "magnitude":
        return stats.get("extreme_entries_compared", 0) > 0
    if sub == "carrier":
        return stats.get("carrier_addresses", 0) > 0
    if sub in ("regen", "override", "access", "dict"):
        return True
    # default: something other than a scalar applied everywhere in default units
    return (stats.get("route_default", 0) + stats.get("route_zero", 0) + stats.get("route_env", 0) > 0
            or len({s["us"] for s in case["species"]} | {case["space_us"]}) > 1)


def _work(job):
    si_, lo, hi = job
    name, seeds, expand = _SPACES[si_]
    acc = core.Acc()
    for k in range(lo, hi):
        case = expand(seeds[k])
        stats = {}
        res = check_case(case, stats)
        n_entries = len(case["species"]) * D.ncells(case)
        acc.add(states=1, transitions=1 + len(case.get("ops", ())) + stats.get("getter_calls", 0),
                traces=1, evaluations=n_entries * 2, nontrivial=1 if _nontrivial(case, stats) else 0)
        for kk, v in stats.items():
            acc.count(kk, v)
        acc.count("entries_compared", n_entries)
        if len({s["us"] for s in case["species"]} | {case["space_us"], case["net_us"], case["sys_us"]}) > 1:
            acc.count("systems_with_heterogeneous_unit_systems")
        for key, what in res:
            acc.violation(key, what, case)
        if k == 0 or (k == lo and si_ in (1, 5) and lo == 0):
            acc.sample(case)
    return acc.pack()


def run(ctx):
    global _SPACES
    D.selftest()
    _SPACES = [b(ctx.tier) for b in SPACE_BUILDERS]
    jobs = []
    for i, (name, seeds, expand) in enumerate(_SPACES):
        for lo, hi in pool.chunks(len(seeds), CHUNK[SPACE_BUILDERS[i].__name__]):
            jobs.append((i, lo, hi))
    res = pool.pmap(_work, jobs, timeout=600)
    per = {}
    for job, r in zip(jobs, res):
        if isinstance(r, pool.Crash):
            ctx.violation("C13:checker:worker-%s" % r.kind, r.detail, {"job": job})
            continue
        core.merge(ctx, r)
        per[job[0]] = per.get(job[0], 0) + r["n"][0]
    for i, (name, seeds, expand) in enumerate(_SPACES):
        ctx.subspace(name, len(seeds), per.get(i, 0), exhaustive=(per.get(i, 0) == len(seeds)))
    ctx.rule("every case of each listed sub-space is built on the real classes in fixed order and EVERY (species, cell) entry of "
             "RDSystem.state / RDSystem.chemostats is compared with the reference; a default-state case is non-trivial when some "
             "entry is resolved through a dict (environment / 'default' / missing -> zero) or species and space use different unit "
             "systems; a set-sequence case is non-trivial when it changes at least one raw entry; cases are distinct tuples of the "
             "products")
    ctx.assume("exact SI scales of mc/ref/si.py; reference = density(env(cell), else 'default', else 0) x volume(cell), "
               "index = species*ncells + cell, cell = z*w*h + y*w + x (mc/ref/defaults.py, self-tested against the documentation's "
               "worked examples at start-up); relative tolerance 1e-12 on SI amounts, exact equality for flags and for entries "
               "that were not addressed")


def replay(case):
    return check_case(case)
