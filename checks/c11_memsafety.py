"""C11 — the native engine is memory-safe on every valid script.

The working tree's engine is built with ASan + UBSan (incl. float-cast-overflow) + _GLIBCXX_ASSERTIONS and
driven through the normal Python API in supervised workers:
  * E1: a script-shape catalogue (engines x grids with w,h,d in {1,2,3} and all boundary combinations x graphs
    with isolated nodes / self-loops / parallel edges / a single node x sampling policies x request lists with
    empty tails x processing modes x states with zeros, fractions, large counts x 1-3 species x 0-3 reactions
    x seed window);
  * E2: the C10 lifecycle histories (one and two objects) on the sanitized build;
  * E3: a catalogue of runs under each of 4 fill patterns of freshly allocated memory (child processes).
Oracle: no sanitizer report, no assertion abort, no signal; outputs equal the plain build's and do not depend on the
fill pattern.
"""
import itertools

from mc import core, pool, models, eng, lifecycle as lc
from checks import c10_lifecycle as c10

core.setup_paths()

NEEDS_ASAN = True
PID = "C11"


def R(sub, prod, kf, kr=0.0):
    return {"eq": [[[l, c] for l, c in sub], [[l, c] for l, c in prod]], "kf": kf, "kr": kr}


REACTIONS = [
    [],
    [R([("A", 1)], [("B", 1)], 0.8, 0.2)],
    [R([("A", 2)], [("B", 1)], 0.05, 0.1), R([], [("A", 1)], 0.5)],
    [R([("A", 1), ("B", 1)], [("C", 1)], 0.02, 0.3), R([("A", 3)], [("C", 1)], 0.001), R([("C", 1)], [], 0.4)],
    [R([("A", 1), ("D", 1)], [("C", 1)], 0.02, 0.3), R([("B", 2)], [("D", 1)], 0.01, 0.2), R([("C", 1)], [("A", 1), ("B", 1)], 0.4),
     R([], [("D", 1)], 0.3)],
]


def spaces(tier):
    out = []
    shapes = [(w, h, d) for w in (1, 2, 3) for h in (1, 2, 3) for d in (1, 2, 3)] + [(4, 4, 1), (5, 1, 2), (4, 3, 2), (1, 5, 1)]
    bcs = [dict(zip("xyz", c)) for c in itertools.product(["reflecting", "periodical"], repeat=3)]
    if tier == "quick":
        shapes = [(1, 1, 1), (2, 1, 1), (1, 2, 1), (1, 1, 3), (2, 2, 1), (3, 2, 1), (2, 2, 2), (3, 1, 2), (4, 4, 1), (5, 1, 2)]
        bcs = [bcs[0], bcs[7], bcs[4], bcs[2]]
    for (w, h, d) in shapes:
        for bc in bcs:
            n = w * h * d
            out.append(("grid%dx%dx%d:%s" % (w, h, d, "".join(v[0] for v in bc.values())),
                        {"type": "grid", "w": w, "h": h, "d": d, "bc": bc, "env": [i % 2 for i in range(n)], "vol": 1.5}))
    nd = lambda k: [{"vol": [1.0, 8.0, 0.5, 27.0][i % 4], "env": i % 2} for i in range(k)]  # noqa: E731
    out.append(("graph-single", {"type": "graph", "nodes": nd(1), "edges": []}))
    out.append(("graph-single-selfloop", {"type": "graph", "nodes": nd(1), "edges": [[0, 0, 1.0, 1.0]]}))
    out.append(("graph-isolated", {"type": "graph", "nodes": nd(3), "edges": [[0, 1, 1.5, 0.75]]}))
    out.append(("graph-parallel+selfloop", {"type": "graph", "nodes": nd(3),
                                             "edges": [[0, 1, 1.5, 0.75], [1, 0, 0.5, 2.0], [2, 2, 3.0, 1.0], [1, 2, 2.5, 1.25]]}))
    out.append(("graph-no-edges", {"type": "graph", "nodes": nd(2), "edges": []}))
    out.append(("graph-k4", {"type": "graph", "nodes": nd(4), "edges": [[i, j, 1.0 + i, 0.5 + j] for i in range(4) for j in range(i + 1, 4)]}))
    return out


SAMPLING = [
    ("on_t_sample", {"t_sample": [0, 0.25, 0.5]}),                     # last request = t_max: empty tail reached
    ("on_t_sample", {"t_sample": [0.3]}),                              # single element, not at 0
    ("on_t_sample", {"t_sample": [0, 0.1, 5.0], "t_max": 0.5}),        # request beyond t_max
    ("on_t_sample", {"t_sample": [], "t_max": 0.5}),                   # no request at all
    # requested times written twice; the numbers of distinct / of written times are chosen so that a buffer sized by one
    # and read by the other crosses a 16-byte allocation bucket (numpy rounds small buffers up to 16 bytes)
    ("on_t_sample", {"t_sample": [0, 0.1, 0.1, 0.4, 0.5]}),
    ("on_t_sample", {"t_sample": [0, 0, 0.25, 0.25, 0.5, 0.75]}),
    ("on_iteration", {"t_sample": [0], "t_max": 0.5}),
    ("on_interval", {"t_sample": [0], "t_max": 0.6, "interval": 0.2}),
    ("no_sampling", {"t_sample": [0], "t_max": 0.5}),
]

STATES = ["zeros", "small-int", "fractions", "above-100", "million"]


def state_for(name, ns, n):
    q = ns * n
    if name == "zeros":
        return [0.0] * q
    if name == "small-int":
        return [float((3 * i + 1) % 5) for i in range(q)]
    if name == "fractions":
        return [0.25 * ((i % 7)) for i in range(q)]
    if name == "above-100":
        return [0.0 if i % 3 == 2 else 100.0 + 17.5 * i for i in range(q)]
    return [1.0e6 if i % 2 == 0 else 0.0 for i in range(q)]


def shape_cases(tier, seed0):
    seeds = [1000 * seed0, 1000 * seed0 + 1] if tier == "quick" else list(range(1000 * seed0, 1000 * seed0 + 4))
    sp = spaces(tier)
    k = 0
    for engine in ("euler", "tauleap", "gillespie"):
        for spname, space in sp:
            n = len(space["nodes"]) if space["type"] == "graph" else space["w"] * space["h"] * space["d"]
            for si_, (pol, samp) in enumerate(SAMPLING):
                for isp in ("auto", "none", "Poisson", "redist"):
                    for sti, stname in enumerate(STATES):
                        k += 1
                        # the full product is large: every (space, engine) sees every sampling entry, every processing
                        # mode and every state class, paired on a Latin-square-like diagonal in quick tier
                        if tier == "quick" and (si_ + sti + k // 5) % 5 != 0:
                            continue
                        if tier == "thorough" and (si_ + 2 * sti + k // 5) % 2 != 0:
                            continue
                        if isp == "none" and engine != "euler" and stname == "fractions":
                            continue  # a non-integer state is not a valid molecular state without processing
                        ns = 1 + (k % 4)
                        rx = REACTIONS[4] if ns == 4 else REACTIONS[min(k % 4, 3 if ns == 3 else (2 if ns >= 2 else 0))]
                        if ns == 1:
                            rx = [R([], [("A", 1)], 0.5)] if k % 2 else []
                        elif ns == 2 and rx is REACTIONS[3]:
                            rx = REACTIONS[2]
                        if engine == "tauleap" and stname == "million" and ns == 4:
                            rx = REACTIONS[1]
                        if engine == "tauleap" and stname == "million" and spname != "grid1x1x1:rrr" and ns > 1:
                            # second/third-order channels at 1e6 molecules give per-step Poisson means above INT_MAX
                            # (recorded known finding, kept visible on the single-cell grid only)
                            rx = REACTIONS[1]
                        spec = {"species": [{"label": "ABCD"[s], "D": [{"default": 0.5, "": 0.25}, 0.0, 0.3, {"e1": 0.2}][s]} for s in range(ns)],
                                "reactions": rx, "envs": ["e0", "e1"], "space": space, "state": state_for(stname, ns, n)}
                        sc = {"system": spec, "time_step": 0.125, "policy": pol, "seed": seeds[k % len(seeds)], "isp": isp}
                        sc.update(samp)
                        yield {"sub": "shape", "engine": engine, "space": spname, "state_class": stname, "script": sc}


# network shapes beyond the small scope: reaction orders 0..6, coefficients up to 5, 5 species x 6 reactions, up to 5
# environments (the cell map uses the last one), per-environment constants with and without 'default'
BIG_NETS = [
    ("order4", 3, [R([("A", 2), ("B", 2)], [("C", 1)], 1e-3, 0.1)], 2),
    ("order4-single", 2, [R([("A", 4)], [("B", 1)], 1e-3, 0.05)], 2),
    ("order5", 3, [R([("A", 3), ("B", 2)], [("C", 2)], 1e-4, 0.02)], 2),
    ("order6-reverse", 3, [R([("A", 1)], [("B", 3), ("C", 3)], 0.5, 1e-5)], 2),
    ("coefficient5", 2, [R([("A", 1)], [("B", 5)], 0.3), R([("B", 5)], [], 1e-5)], 2),
    ("5species-6reactions", 5, [R([("A", 1)], [("B", 1)], 0.5, 0.1), R([("B", 1), ("C", 1)], [("D", 1)], 0.05, 0.2),
                                R([("D", 2)], [("E", 1)], 0.02), R([], [("C", 1)], 0.7), R([("E", 1)], [], 0.3),
                                R([("A", 1), ("E", 1)], [("A", 1), ("C", 2)], 0.04)], 2),
    ("5environments", 2, [R([("A", 1)], [("B", 1)], {"e4": 0.9, "e2": 0.1}, {"default": 0.2, "e0": 0.0})], 5),
    ("3environments-order3", 3, [R([("A", 2), ("B", 1)], [("C", 1)], {"default": 0.01, "e2": 0.0}, 0.3)], 3),
]


def bignet_cases(tier, seed0):
    sps = [("grid2x1x1", lambda ne: {"type": "grid", "w": 2, "h": 1, "d": 1, "bc": {}, "env": [0, ne - 1], "vol": 1.5}),
           ("grid3x2x2:p", lambda ne: {"type": "grid", "w": 3, "h": 2, "d": 2, "bc": {"x": "periodical", "y": "reflecting", "z": "periodical"},
                                       "env": [(5 * i + 1) % ne for i in range(12)], "vol": 0.5}),
           ("graph-chain3", lambda ne: {"type": "graph", "nodes": [{"vol": [1.0, 8.0, 0.5][i], "env": (ne - 1 - i) % ne} for i in range(3)],
                                        "edges": [[0, 1, 1.5, 0.75], [2, 1, 0.5, 2.0]]})]
    k = 0
    for engine in ("euler", "tauleap", "gillespie"):
        for name, ns, rx, ne in BIG_NETS:
            for spname, mk in sps:
                for stname in ("small-int", "fractions") + (("above-100",) if tier == "thorough" else ()):
                    if stname == "above-100" and engine == "tauleap" and name not in ("5species-6reactions", "5environments"):
                        # high-order channels at hundreds of molecules per cell drive the tau-leap populations (and then
                        # the per-step Poisson means) beyond the int range within a few steps: the recorded known finding
                        continue
                    k += 1
                    space = mk(ne)
                    n = len(space["nodes"]) if space["type"] == "graph" else space["w"] * space["h"] * space["d"]
                    spec = {"species": [{"label": "ABCDE"[s], "D": [0.5, {"default": 0.25, "e0": 0.0}, 0.3, 0.0, 0.1][s]} for s in range(ns)],
                            "reactions": rx, "envs": ["e%d" % i for i in range(ne)], "space": space, "state": state_for(stname, ns, n)}
                    pol, samp = SAMPLING[k % len(SAMPLING)]
                    sc = {"system": spec, "time_step": 0.0625, "policy": pol, "seed": 1000 * seed0 + k % 3, "isp": "auto"}
                    sc.update(samp)
                    yield {"sub": "shape", "engine": engine, "space": spname + ":" + name, "state_class": stname, "script": sc}


def route_cases(tier, seed0):
    """simulate_script(print_progress=True) and the coarse-graining route (index maps with lumped and dropped cells)."""
    # (groups only lump cells of one environment, as coarse-graining requires)
    grids = [("grid2x2x1", {"type": "grid", "w": 2, "h": 2, "d": 1, "bc": {}, "env": [0, 0, 1, 1], "vol": 1.5},
              [[0, 1, 2, 3], [0, 0, 1, 1], [0, 1, -1, -1], [-1, 0, 1, 1], [0, -1, -1, 1], [1, 1, 0, 0]]),
             ("grid3x1x1", {"type": "grid", "w": 3, "h": 1, "d": 1, "bc": {}, "env": [0, 0, 1], "vol": 0.5},
              [[0, 1, 2], [0, 0, 1], [-1, 0, 1], [0, -1, 1], [0, 1, -1], [1, 1, 0]]),
             ("grid2x1x2", {"type": "grid", "w": 2, "h": 1, "d": 2, "bc": {}, "env": [1, 1, 0, 0], "vol": 8.0},
              [[0, 1, 2, 3], [0, 0, 1, -1], [-1, -1, 0, 1]])]
    k = 0
    for engine in ("euler", "tauleap", "gillespie"):
        for gname, space, maps in grids:
            n = space["w"] * space["h"] * space["d"]
            for ns in (1, 2):
                spec = {"species": [{"label": "AB"[q], "D": [0.5, {"default": 0.25, "e0": 0.1}][q]} for q in range(ns)],
                        "reactions": REACTIONS[1] if ns == 2 else [R([], [("A", 1)], 0.5)], "envs": ["e0", "e1"], "space": space,
                        "state": state_for("small-int", ns, n)}
                for si_, (pol, samp) in enumerate(SAMPLING[:3] + SAMPLING[6:8]):
                    k += 1
                    sc = {"system": spec, "time_step": 0.125, "policy": pol, "seed": 1000 * seed0 + k % 3, "isp": "auto"}
                    sc.update(samp)
                    yield {"sub": "shape", "engine": engine, "space": gname + ":progress", "state_class": "small-int", "script": sc, "route": "progress"}
                    for m in maps:
                        if tier == "quick" and (k + len(m) + sum(m)) % 2:
                            continue
                        yield {"sub": "shape", "engine": engine, "space": gname + ":cgmap" + "".join("x" if v < 0 else str(v) for v in m),
                               "state_class": "small-int", "script": sc, "route": "cgmap", "cgmap": m, "progress": bool(k % 2)}


def mutate_cases(tier, seed0):
    """Set-up, then the caller's script object is given a smaller system (and a shorter request list) before the run and
    get_output(): 3 engines x 3 spaces x 3 sampling entries x 2 edits."""
    sp = dict(spaces("thorough"))
    k = 0
    for engine in ("euler", "tauleap", "gillespie"):
        for spname in ("grid3x2x1:ppp", "grid2x2x2:rrr", "graph-k4"):
            space = sp[spname]
            n = len(space["nodes"]) if space["type"] == "graph" else space["w"] * space["h"] * space["d"]
            for pol, samp in (SAMPLING[0], SAMPLING[6], SAMPLING[7]):
                for mut in ("system", "system+requests"):
                    k += 1
                    spec = {"species": [{"label": "AB"[q], "D": [0.5, 0.25][q]} for q in range(2)], "reactions": REACTIONS[1],
                            "envs": ["e0", "e1"], "space": space, "state": state_for("small-int", 2, n)}
                    sc = {"system": spec, "time_step": 0.125, "policy": pol, "seed": 1000 * seed0 + k % 3, "isp": "auto"}
                    sc.update(samp)
                    yield {"sub": "shape", "engine": engine, "space": spname + ":script-edited-after-setup", "state_class": "small-int",
                           "script": sc, "mutate": mut}


def pinned_cases():
    """Inputs of recorded known findings are kept in the catalogue explicitly so that the finding stays visible."""
    spec = {"species": [{"label": "A", "D": 0.5}, {"label": "B", "D": 0.0}],
            "reactions": [R([("A", 2)], [("B", 1)], 0.05, 0.1)], "envs": ["e0", "e1"],
            "space": {"type": "grid", "w": 1, "h": 1, "d": 1, "bc": {}, "env": [0], "vol": 1.5}, "state": [1.0e6, 0.0]}
    yield {"sub": "shape", "engine": "tauleap", "space": "grid1x1x1:rrr", "state_class": "million",
           "script": {"system": spec, "time_step": 0.125, "policy": "on_t_sample", "seed": 0, "isp": "none", "t_sample": [0, 0.25, 0.5]}}


def run_script(case, variant):
    script = models.build_script(case["script"])
    e = eng.make_engine(case["engine"], variant)
    route = case.get("route")
    if route:
        # the library's own drivers: simulate_script with its documented keywords (progress printing, cgmap)
        import contextlib
        import io
        from strengths.simulate import simulate_script
        kw = {}
        if route == "progress":
            kw["print_progress"] = True
        else:
            kw["cgmap"] = list(case["cgmap"])
            kw["print_progress"] = bool(case.get("progress"))
        with contextlib.redirect_stdout(io.StringIO()):
            o = simulate_script(script, e, **kw)
        return (o.t.value.tobytes(), o.data.value.tobytes(), -1)
    e.setup(script)
    if case.get("mutate"):
        # the caller goes on using ITS script object after the set-up (another, smaller system; another request list):
        # the running simulation and its output buffers belong to the engine
        spec = case["script"]["system"]
        ns = len(spec["species"])
        small = dict(spec, space={"type": "grid", "w": 1, "h": 1, "d": 1, "bc": {}, "env": [0], "vol": 1.0}, state=[1.0] * ns)
        small.pop("chemostats", None)
        script.system = models.build_system(small)
        if case["mutate"] == "system+requests":
            script.t_sample = [0]
    n = 0
    while n < 400 and e.iterate():
        n += 1
        if n == 2:
            e.sample()
    o = e.get_output()
    res = (o.t.value.tobytes(), o.data.value.tobytes(), n)
    e.finalize()
    return res


def _same_up_to_nan(a, b):
    """Bytewise different results are still the same run when they differ only in the sign / payload bits of
    NaN entries (a diverging Euler run overflows to inf - inf; which NaN the hardware instruction sequence
    leaves is the compiler's choice, not a memory-safety matter).  Every non-NaN entry must agree bit for bit."""
    import numpy as np
    if a[2] != b[2] or len(a[0]) != len(b[0]) or len(a[1]) != len(b[1]):
        return False
    for x, y in ((a[0], b[0]), (a[1], b[1])):
        u, v = np.frombuffer(x), np.frombuffer(y)
        nu, nv = np.isnan(u), np.isnan(v)
        if not np.array_equal(nu, nv):
            return False
        if not np.array_equal(u[~nu].view(np.uint64), v[~nv].view(np.uint64)):
            return False
    return True


def check_shape(case):
    out = []
    try:
        lc.announce("shape-case san " + case["engine"] + " " + case["space"])
        a = run_script(case, "san")
        lc.announce("shape-case plain " + case["engine"] + " " + case["space"])
        b = run_script(case, "plain")
        if a != b and not _same_up_to_nan(a, b):
            import numpy as np
            out.append(("C11:shape:%s:sanitized-and-plain-builds-differ" % case["engine"],
                        "san: n=%d t=%r | plain: n=%d t=%r" % (a[2], np.frombuffer(a[0]).tolist()[:6], b[2], np.frombuffer(b[0]).tolist()[:6])))
    except Exception as ex:
        out.append(("C11:shape:unexpected-exception", "%s: %s" % (type(ex).__name__, ex)))
    return out


# ---- owned heap content (E3): the same run under different fill patterns of fresh allocations -------------------------
# ASan does not report a read of a member or array entry that was allocated but never written.  Its allocator can
# however be told which byte fresh memory holds; the result of a valid run may not depend on it ("a result never depends
# on memory outside the arrays the engine was given").  0x00 reads as 0 / 0.0 / false, 0x7f.. as a huge positive
# number, 0xbe.. (ASan's default) as a huge negative one, 0xff.. as -1 / NaN: each run is executed under every pattern,
# one child process per pattern (the option is read when the runtime starts).
FILLS = [0x00, 0x7f, 0xbe, 0xff]


def fill_cases(tier, seed0):
    sp = dict(spaces("thorough"))
    names = ["grid2x1x1:rrr", "grid3x2x1:ppp", "grid2x2x2:prp", "grid1x1x1:rrr", "graph-isolated", "graph-k4", "graph-single-selfloop"]
    if tier == "thorough":
        names += ["grid3x3x2:rpr", "grid1x5x1:ppp", "graph-parallel+selfloop", "graph-no-edges"]
    k = 0
    for engine in ("euler", "tauleap", "gillespie"):
        for spname in names:
            space = sp[spname]
            n = len(space["nodes"]) if space["type"] == "graph" else space["w"] * space["h"] * space["d"]
            for pol, samp in SAMPLING:
                for isp in (("auto", "Poisson") if tier == "quick" else ("auto", "none", "Poisson", "redist")):
                    k += 1
                    ns = 2 + k % 2
                    rx = REACTIONS[2] if ns == 2 else REACTIONS[3]
                    stname = ("small-int", "above-100", "zeros")[k % 3]
                    spec = {"species": [{"label": "ABC"[s], "D": [{"default": 0.5, "e1": 0.25}, 0.0, 0.3][s]} for s in range(ns)],
                            "reactions": rx, "envs": ["e0", "e1"], "space": space, "state": state_for(stname, ns, n)}
                    sc = {"system": spec, "time_step": 0.125, "policy": pol, "seed": 1000 * seed0 + k % 3, "isp": isp}
                    sc.update(samp)
                    yield {"sub": "heap-fill", "engine": engine, "space": spname, "state_class": stname, "script": sc}


def _digest(res):
    import hashlib
    import numpy as np
    h = hashlib.sha1()
    for x in res[:2]:
        a = np.frombuffer(x).copy()
        a[np.isnan(a)] = np.nan          # one NaN for all (sign / payload are the compiler's choice)
        h.update(a.tobytes())
        h.update(b"|")
    h.update(str(res[2]).encode())
    return h.hexdigest()


def fill_child():
    """Child process (started with its own ASAN_OPTIONS): runs the cases read from stdin on the sanitized build and prints
    one digest per case."""
    import json
    import sys
    cases = json.load(sys.stdin)
    out = []
    for i, case in enumerate(cases):
        sys.stderr.write("VERIF-AT fill-case %d\n" % i)
        sys.stderr.flush()
        try:
            out.append(_digest(run_script(case, "san")))
        except Exception as ex:     # a rejected script is the same under every pattern
            out.append("exception:" + type(ex).__name__)
    sys.stdout.write("\nVERIF-FILL-DIGESTS " + json.dumps(out) + "\n")


def run_fills(cases):
    """Returns {fill: (returncode, digests or None, stderr tail)} for the case list, the children run side by side."""
    import json
    import os
    import subprocess
    import sys
    base = dict(os.environ)
    procs = {}
    for fill in FILLS:
        env = dict(base)
        env["ASAN_OPTIONS"] = base.get("ASAN_OPTIONS", "") + ":malloc_fill_byte=%d:max_malloc_fill_size=16777216" % fill
        code = "import sys; sys.path.insert(0, %r); from checks import c11_memsafety as m; m.fill_child()" % core.VERIF
        procs[fill] = subprocess.Popen([sys.executable, "-c", code], env=env, stdin=subprocess.PIPE, stdout=subprocess.PIPE,
                                       stderr=subprocess.PIPE, cwd=core.VERIF)
    payload = json.dumps(cases).encode()
    import threading
    res = {}

    def wait(fill, p):
        try:
            o, e = p.communicate(payload, timeout=900)
        except subprocess.TimeoutExpired:
            p.kill()
            o, e = p.communicate()
            res[fill] = (-999, None, e.decode("utf-8", "replace")[-3000:])
            return
        dig = None
        for line in o.decode("utf-8", "replace").splitlines():
            if line.startswith("VERIF-FILL-DIGESTS "):
                dig = json.loads(line[len("VERIF-FILL-DIGESTS "):])
        res[fill] = (p.returncode, dig, e.decode("utf-8", "replace")[-3000:])
    ths = [threading.Thread(target=wait, args=(f, p)) for f, p in procs.items()]
    for t in ths:
        t.start()
    for t in ths:
        t.join()
    return res


def check_fills(cases):
    """[(key, what, case)] for a list of heap-fill cases."""
    out = []
    res = run_fills(cases)
    for fill, (rc, dig, err) in sorted(res.items()):
        if dig is None or len(dig) != len(cases):
            at = lc.announced(err) or ""
            i = int(at.split()[-1]) if at.startswith("fill-case") else 0
            cls = "hang" if rc == -999 else classify(err)
            out.append(("C11:heap-fill:%s:child-died:%s" % (cases[i]["engine"], cls),
                        "fill byte 0x%02x, exit %r at case %d: %s" % (fill, rc, i, err[-1500:]), cases[i]))
    if out:
        return out
    for i, case in enumerate(cases):
        ds = {fill: res[fill][1][i] for fill in FILLS}
        if len(set(ds.values())) > 1:
            groups = {}
            for f, d in ds.items():
                groups.setdefault(d, []).append("0x%02x" % f)
            out.append(("C11:heap-fill:%s:%s:result-depends-on-the-content-of-fresh-memory" % (case["engine"], case["script"]["policy"]),
                        "the run gives %d different results under the fill bytes %s (space %s, isp %s)"
                        % (len(groups), sorted(groups.values()), case["space"], case["script"]["isp"]), case))
    return out


def classify(detail):
    """Short class of a sanitizer / assertion report found in the worker's stderr."""
    d = detail
    for pat, cls in (("heap-buffer-overflow", "heap-buffer-overflow"), ("heap-use-after-free", "use-after-free"),
                     ("attempting double-free", "double-free"), ("stack-buffer-overflow", "stack-buffer-overflow"),
                     ("global-buffer-overflow", "global-buffer-overflow"), ("container-overflow", "container-overflow"),
                     ("Assertion '", "libstdc++-assertion"), ("runtime error:", "undefined-behaviour"),
                     ("SEGV", "segv"), ("alloc-dealloc-mismatch", "alloc-dealloc-mismatch")):
        if pat in d:
            extra = ""
            if cls == "libstdc++-assertion":
                i = d.index("Assertion '")
                extra = ":" + d[i + 11:i + 60].split("'")[0].replace(" ", "").replace(":", "")[:40]
            if cls == "undefined-behaviour":
                i = d.index("runtime error:")
                extra = ":" + "-".join(d[i + 14:i + 80].split()[:6]).replace(":", "")
            fn = ""
            for name in ("SampleOnTSample", "GenerateStochasticDistribution", "Poisson", "engineexport_finalize",
                         "engineexport_initialize_grid", "engineexport_initialize_graph", "Build_mesh_kd", "Build_mesh_kr",
                         "Compute_nevt", "Apply_nevt", "DrawAndApplyEvent", "ComputePropensities", "Compute_dxdt",
                         "engineexport_get_trajectory", "engineexport_run", "SetNeighbors", "BuildMeshNeighbors"):
                if name in d:
                    fn = ":" + name
                    break
            return cls + extra + fn
    return "signal"


def max_poisson_mean(case):
    """Largest propensity x dt of the initial state according to the reference channel model."""
    from mc.ref import cme
    sc = case["script"]
    try:
        chs = cme.channels(sc["system"], [int(v) for v in sc["system"]["state"]])
        return max([p for _, p, _ in chs] + [0.0]) * float(sc["time_step"])
    except Exception:
        return 0.0


_JOBS = None


def _work(job):
    lo, hi = job
    acc = core.Acc()
    for j in _JOBS[lo:hi]:
        if j[0] == "shape":
            res = check_shape(j[1])
            acc.add(states=1, transitions=2, traces=2, evaluations=1, nontrivial=1)
            acc.count("cases:shape")
            for key, what in res:
                acc.violation(key, what, j[1])
    rest = [j for j in _JOBS[lo:hi] if j[0] != "shape"]
    if rest:
        saved = c10._JOBS
        c10._JOBS = rest
        try:
            packed = c10._work((0, len(rest)))
        finally:
            c10._JOBS = saved
        for k, v in packed["counts"].items():
            acc.count(k, v)
        acc.viol.extend(packed["viol"])
        s, t, tr, e, n = packed["n"]
        acc.add(s, t, tr, e, n)
    return acc.pack()


def check_case(case):
    if case.get("sub") == "shape":
        return check_shape(case)
    if case.get("sub") == "heap-fill":
        return [(k, w) for k, w, _ in check_fills([case])]
    c10.VARIANT, c10.PID = "san", "C11"
    return c10.check_case(case)


def run(ctx):
    global _JOBS
    c10.VARIANT, c10.PID = "san", "C11"
    eng.so_path("san")
    eng.so_path("plain")
    # the sanitized build costs 5-10x the plain one: the lifecycle sub-spaces are explored one level less deep than in C10
    hjobs, subs = c10.build_jobs(ctx.tier, ctx.seed, d1=4 if ctx.tier == "quick" else 5, d2=3 if ctx.tier == "quick" else 4,
                                 dlm=4 if ctx.tier == "quick" else 5, light=True)
    sc = list(shape_cases(ctx.tier, ctx.seed)) + list(bignet_cases(ctx.tier, ctx.seed)) + list(route_cases(ctx.tier, ctx.seed)) + list(mutate_cases(ctx.tier, ctx.seed)) + list(pinned_cases())
    _JOBS = [("shape", c) for c in sc] + hjobs
    ctx.sample(sc[len(sc) // 2])
    for j in hjobs[40:42] + hjobs[-1:]:
        ctx.sample(c10.describe(j))
    done = 0
    for job, r in pool.pmap_split(_work, len(_JOBS), 20, timeout=40, single_timeout=20, max_failures=20000):
        if isinstance(r, pool.Crash) and r.kind == "skipped":
            ctx.exhaustive = False
            if "re-run-of-failed-chunks-capped" not in ctx.caps:
                ctx.caps.append("re-run-of-failed-chunks-capped")
            continue
        if isinstance(r, pool.Crash):
            j = _JOBS[job[0]]
            cls = classify(r.detail) if r.kind == "crash" else r.kind
            if j[0] == "shape" and r.kind == "hang" and j[1]["engine"] == "tauleap":
                cls = "poisson-mean-above-INT_MAX" if max_poisson_mean(j[1]) > 2.0 ** 31 else "hang"
            if j[0] == "shape":
                key = "C11:shape:%s:%s:%s" % (j[1]["engine"], r.kind, cls)
                ctx.violation(key, r.detail[-3000:], j[1])
            elif j[0] == "simple":
                key = "C11:%s:%s:%s:%s" % (j[1]["sub"], j[1]["engine"], r.kind, cls)
                ctx.violation(key, r.detail[-3000:], j[1])
            elif j[0] == "tla":
                ctx.violation("C11:model-conformance:%s:%s:%s" % (r.kind, cls, j[2]), r.detail[-3000:], c10.describe(j))
            else:
                at = lc.announced(r.detail) or ("op " + lc.hist_str(j[3]))
                d = c10.describe(j)
                if at.startswith("op "):
                    d["history"] = at[3:]
                key = "C11:%s:%s:%s:%s" % (c10._crash_tag(j, at), r.kind, cls, at.replace(" ", ":"))
                ctx.violation(key, r.detail[-3000:], d)
            done += 1
            continue
        core.merge(ctx, r)
        done += job[1] - job[0]
    fc = list(fill_cases(ctx.tier, ctx.seed))
    fres = check_fills(fc)
    for key, what, case in fres:
        ctx.violation(key, what, case)
    ctx.add(states=len(fc), transitions=len(fc) * len(FILLS), traces=len(fc) * len(FILLS), evaluations=len(fc))
    ctx.subspace("heap-fill: 3 engines x %d spaces x %d sampling entries x processing modes, each run under the %d fill "
                 "patterns %s of freshly allocated memory (one child process per pattern): identical results"
                 % (len(fc) // (3 * len(SAMPLING) * (2 if ctx.tier == "quick" else 4)), len(SAMPLING), len(FILLS),
                    "/".join("0x%02x" % f for f in FILLS)), len(fc), len(fc), exhaustive=True)
    ctx.subspace("script-shape catalogue on the sanitized build (3 engines x %d spaces x 9 sampling entries x 4 processing modes x "
                 "5 state classes, diagonal sub-lattice%s; + 3 engines x 8 larger network shapes (orders 4-6, coefficient 5, 5 species x 6 "
                 "reactions, 3 and 5 environments) x 3 spaces x state classes; + simulate_script routes; + 54 runs whose script object is given a smaller system after the set-up) each compared with the plain build"
                 % (len(spaces(ctx.tier)), " 1/5" if ctx.tier == "quick" else " 1/2"), len(sc), len(sc) if done == len(_JOBS) else 0,
                 exhaustive=(done == len(_JOBS)))
    ctx.add(states=0)
    for name, nhist, nleaves in subs:
        ctx.subspace("[sanitized build] " + name, nhist, nhist if done == len(_JOBS) else 0, exhaustive=(done == len(_JOBS)),
                     executed_leaves=nleaves)
        ctx.add(states=nhist)
    ctx.nontrivial = ctx.states
    ctx.rule("states = script shapes + lifecycle histories executed on the ASan/UBSan/_GLIBCXX_ASSERTIONS build; any sanitizer "
             "report, assertion abort or signal kills the worker and is attributed to the announced case; every case is "
             "non-trivial (it runs the native engine)")
    ctx.assume("sanitizers observe the accesses the explored executions perform; leaks are not in the statement "
               "(detect_leaks=0); clang 14 ASan/UBSan and libstdc++ debug assertions are trusted")
    ctx.note("engine_build", eng.so_path("san"))


def replay(case):
    return check_case(case)
