"""C01 — deterministic rate law: mass action + Bernstein diffusion, three-way agreement.

E1: completely enumerated sub-spaces (reaction law in one cell, diffusion law on grids and graphs, table
layout with two reactions / several environments / several cells).  Each case is executed on
  * kinetics.compute_dstatedt            (every (species, cell) entry)
  * RDSystem.make_dxdtf()(0, x)          (single-cell cases)
  * one step of the native Euler engine  (fresh build of the working tree, grids and graphs)
and compared with mc/ref/ratelaw.py within 1e-9 x (sum of absolute terms).
"""
import itertools

from mc import core, pool, models, eng, uq
from mc.ref import ratelaw, si

core.setup_paths()
from strengths import kinetics  # noqa: E402

TOL = 1e-9
DT = 2.0 ** -10
PRIMES = [2.0, 3.0, 5.0, 7.0, 11.0, 13.0, 17.0, 19.0, 23.0, 29.0, 31.0, 37.0, 41.0, 43.0, 47.0, 53.0, 59.0, 61.0,
          67.0, 71.0, 73.0, 79.0, 83.0, 89.0, 97.0, 101.0, 103.0, 107.0, 109.0, 113.0, 127.0, 131.0, 137.0, 139.0,
          149.0, 151.0]
ENVS = ["e0", "e1", "e2"]
UNITS3 = [si.DEFAULT, ("nm", "ms", "molecule"), ("mm", "min", "fmol")]
FOREIGN = [("nm", "ms", "fmol"), si.DEFAULT, ("dm", "min", "nmol"), ("µm", "h", "mol"), ("mm", "s", "molecule")]


# ---- one case -----------------------------------------------------------------------------------

def _cmp(tag, got, ref, scale, extra_abs, out, labels=None):
    if len(got) != len(ref):
        out.append(("C01:%s:length" % tag, "returned %d entries, expected %d" % (len(got), len(ref))))
        return
    for q, (g, r, s, e) in enumerate(zip(got, ref, scale, extra_abs)):
        tol = TOL * s + e + 1e-300
        if not abs(g - r) <= tol:
            out.append(("C01:%s:value" % tag,
                        "entry %d: got %.17g, rate law gives %.17g (|diff| %.3e > tol %.3e)" % (q, g, r, abs(g - r), tol)))
            return


WRITTEN_LENGTHS = ["nm", "mm", "dm", "µm", "cm"]


def _as_written(spec):
    """The same graph system with every node volume, edge surface and edge distance written as a text quantity in a length
    unit of its own (node / edge i uses WRITTEN_LENGTHS[i mod 5]) instead of a bare number in the system's units: same
    physical values, so the same rate law."""
    import copy
    sp = copy.deepcopy(spec)
    us3 = tuple(spec.get("units", si.DEFAULT))
    if sp["space"]["type"] != "graph":
        return sp

    def q(v, i, p):
        ln = WRITTEN_LENGTHS[i % len(WRITTEN_LENGTHS)]
        fo = (ln, us3[1], us3[2])
        return "%r %s%s" % (float(v) * float(si.factor(us3, fo, (p, 0, 0))), ln, "" if p == 1 else str(p))
    for i, nd in enumerate(sp["space"]["nodes"]):
        nd["vol"] = q(nd.get("vol", 1.0), i, 3)
    for i, e in enumerate(sp["space"]["edges"]):
        e[2] = q(e[2], i + 1, 2)
        e[3] = q(e[3], i + 2, 1)
    return sp


def check_case(case):
    out = []
    spec = case["spec"]
    us3 = tuple(spec.get("units", si.DEFAULT))
    obs = case.get("observers", ["kin", "euler"])
    f, sc = ratelaw.rhs(spec, apply_chemostats=True)
    n = len(f)
    zeros = [0.0] * n
    try:
        system = models.build_system(_as_written(spec) if case.get("written") else spec)
    except Exception as e:
        return [("C01:build:unexpected-exception", "%s: %s" % (type(e).__name__, e))]
    us = uq.mk_sys(us3)
    if "kin" in obs:
        try:
            a = kinetics.compute_dstatedt(system, units_system=us)
            if uq.dim_of(a.units) != (0, -1, 1):
                out.append(("C01:compute_dstatedt:dimension", "result has dimension %s, expected amount/time" % (uq.dim_of(a.units),)))
            else:
                a = a.convert(us)
                _cmp("compute_dstatedt:" + case["sub"], [float(v) for v in a.value], f, sc, zeros, out)
        except Exception as e:
            out.append(("C01:compute_dstatedt:unexpected-exception", "%s: %s" % (type(e).__name__, e)))
    if "dxdtf" in obs:
        try:
            fn = system.make_dxdtf(units_system=us)
            g = fn(0.0, [float(v) for v in spec["state"]])
            _cmp("make_dxdtf:" + case["sub"], [float(v) for v in g], f, sc, zeros, out)
            # the returned function is a pure function of (t, x): an ODE solver calls it many times, at other states too
            fn(0.5, [float(v) * 1.5 + 1.0 for v in spec["state"]])
            g = fn(1.0, [float(v) for v in spec["state"]])
            _cmp("make_dxdtf:called-again:" + case["sub"], [float(v) for v in g], f, sc, zeros, out)
            if all(float(v) == int(v) for v in spec["state"]):
                # the same amounts handed over as Python ints / as a tuple
                g = system.make_dxdtf(units_system=us)(0.0, tuple(int(v) for v in spec["state"]))
                _cmp("make_dxdtf:int-state:" + case["sub"], [float(v) for v in g], f, sc, zeros, out)
            # the right-hand side requested in a units system foreign to the system's own: amounts in, amount/time out
            fo = FOREIGN[case.get("k", len(spec["state"]) + len(spec["reactions"])) % len(FOREIGN)]
            if tuple(fo) != tuple(us3):
                fa = float(si.factor(us3, fo, (0, 0, 1)))
                fr = float(si.factor(us3, fo, (0, -1, 1)))
                g = system.make_dxdtf(units_system=uq.mk_sys(fo))(0.0, [float(v) * fa for v in spec["state"]])
                _cmp("make_dxdtf:foreign-units:" + case["sub"], [float(v) / fr for v in g], f, sc, zeros, out)
        except Exception as e:
            out.append(("C01:make_dxdtf:unexpected-exception", "%s: %s" % (type(e).__name__, e)))
    if "euler" in obs:
        try:
            scr = models.build_script({"system": spec, "t_sample": [0], "time_step": DT, "t_max": 0,
                                       "policy": "on_iteration", "units": us3}, system=system)
            traj, nit = eng.simulate("euler", scr)
            t, d = models.traj_arrays(traj)
            if len(d) != 2:
                out.append(("C01:euler:records", "expected 2 per-iteration records (t=0 and one step), got %d" % len(d)))
            else:
                x0, x1 = d
                got = [(b - a_) / DT for a_, b in zip(x0, x1)]
                extra = [8e-16 * (abs(a_) + abs(b)) / DT for a_, b in zip(x0, x1)]
                _cmp("euler-step:" + case["sub"], got, f, sc, extra, out)
                if uq.dim_of(traj.data.units) != (0, 0, 1):
                    out.append(("C01:euler:dimension", "trajectory data dimension %s" % (uq.dim_of(traj.data.units),)))
        except Exception as e:
            out.append(("C01:euler:unexpected-exception", "%s: %s" % (type(e).__name__, e)))
    return out


# ---- enumeration --------------------------------------------------------------------------------

def _multisets(labels, maxn):
    out = []
    for n in range(maxn + 1):
        for c in itertools.combinations_with_replacement(labels, n):
            out.append(list(c))
    return out


def _side(ms):
    # keep repeats as separate unit terms for odd positions, merged coefficients otherwise: "A + A" and "2 A"
    terms = []
    for lab in ms:
        terms.append([lab, 1])
    return terms


def _side_merged(ms):
    d = {}
    for lab in ms:
        d[lab] = d.get(lab, 0) + 1
    return [[k, v] for k, v in d.items()]


KPAT = [
    lambda p: p[0],
    lambda p: {"e0": p[0], "e1": p[1], "e2": p[2]},
    lambda p: {"e1": p[1], "default": p[2]},
    lambda p: {"e1": p[1]},
    lambda p: {"default": p[2], "e1": p[1]},          # 'default' written first: the environment's own entry still wins
    lambda p: {"e2": p[2], "default": p[0], "e0": p[1]},
]


def _scale_spec(spec, us3):
    """Express a spec given in default units in unit system us3 (exact factors are not needed: the
    reference is evaluated on the re-scaled numbers themselves)."""
    spec = dict(spec)
    spec["units"] = list(us3)
    return spec


def gen_reaction(tier):
    labels2 = ["A", "B"]
    labels3 = ["A", "B", "C"]
    pairs = []
    m2 = _multisets(labels2, 4)
    for a in m2:
        for b in m2:
            pairs.append((labels2, a, b))
    m3 = _multisets(labels3, 2)
    for a in m3:
        for b in m3:
            pairs.append((labels3, a, b))
    # incl. a completely empty cell (zero-order directions still fire) and amounts whose integer powers leave 64 bits
    states = {2: [[3.0, 5.0], [0.0, 7.0], [1.0, 1.0], [0.0, 0.0], [3000000.0, 70000.0]],
              3: [[3.0, 5.0, 7.0], [2.0, 0.0, 11.0], [1.0, 1.0, 1.0], [0.0, 0.0, 0.0], [4000000000.0, 3.0, 2100000.0]]}
    vols = [1.0, 8.0, 0.5]
    idx = 0
    for labels, a, b in pairs:
        for pat in range(6):
            for cenv in range(3):
                for vi, vol in enumerate(vols):
                    for si_, st in enumerate(states[len(labels)]):
                        idx += 1
                        if tier == "quick" and (pat + cenv + vi + si_ + idx // 7) % 9 != 0:
                            # quick tier: a fixed 1/9 sub-lattice of the (pattern, env, volume, state) product for
                            # every reaction pair (all reaction pairs are always visited)
                            continue
                        merged = (idx % 2 == 0)
                        mk = _side_merged if merged else _side
                        for gtype in ("grid", "graph"):
                            space = ({"type": "grid", "w": 1, "h": 1, "d": 1, "env": cenv, "vol": vol} if gtype == "grid"
                                     else {"type": "graph", "nodes": [{"vol": vol, "env": cenv}], "edges": []})
                            spec = {"species": [{"label": l} for l in labels],
                                    "reactions": [{"eq": [mk(a), mk(b)], "kf": KPAT[pat]([2.0, 3.0, 5.0]),
                                                   "kr": KPAT[(pat + 1) % 6]([7.0, 11.0, 13.0])}],
                                    "envs": ENVS, "space": space, "state": st}
                            us3 = UNITS3[idx % 3] if tier == "thorough" else UNITS3[idx % 2]
                            spec["units"] = list(us3)
                            yield {"sub": "reaction-" + gtype, "spec": spec, "observers": ["kin", "dxdtf", "euler"], "k": idx}


def _env_maps(n, nenv=2):
    if n <= 4:
        return [list(m) for m in itertools.product(range(nenv), repeat=n)]
    stripes = [i % 2 for i in range(n)]
    block = [0 if i < n // 2 else 1 for i in range(n)]
    odd = [0] * n
    odd[n // 2] = 1
    return [stripes, block, odd]


DPATS = [
    [{"e0": 2.0, "e1": 6.0}, 3.0],                       # two environments, second species homogeneous
    [{"e0": 2.0, "e1": 0.0}, {"e1": 5.0, "default": 7.0}],  # zero-diffusivity wall for species 0
    [{"e1": 4.0}, {"e0": 3.0}],                           # missing keys without default -> 0
    [{"default": 5.0, "e1": 2.0}, {"default": 0.0, "e0": 3.0}],   # 'default' written first
]


def gen_diffusion_grid(tier):
    kin_max = 8 if tier == "thorough" else 6
    eng_max = 12 if tier == "thorough" else 8
    shapes = [(w, h, d) for w in (1, 2, 3) for h in (1, 2, 3) for d in (1, 2, 3) if w * h * d <= eng_max]
    bcs = [dict(zip("xyz", c)) for c in itertools.product(["reflecting", "periodical"], repeat=3)]
    if tier == "quick":
        bcs = [bcs[0], bcs[7], bcs[4], bcs[3]]
    k = 0
    for (w, h, d) in shapes:
        n = w * h * d
        for bc in bcs:
            for em in _env_maps(n):
                for dp in (DPATS if tier == "thorough" else [DPATS[0], DPATS[1], DPATS[3]][(k // 2) % 3:(k // 2) % 3 + 2] or DPATS[:2]):
                    k += 1
                    vol = [1.0, 8.0, 0.5][k % 3]
                    spec = {"species": [{"label": "A", "D": dp[0]}, {"label": "B", "D": dp[1]}], "reactions": [],
                            "envs": ["e0", "e1"],
                            "space": {"type": "grid", "w": w, "h": h, "d": d, "bc": bc, "env": em, "vol": vol},
                            "state": PRIMES[:2 * n], "units": list(UNITS3[k % 3] if tier == "thorough" else UNITS3[0])}
                    obs = ["euler"] + (["kin"] if n <= kin_max else [])
                    yield {"sub": "diffusion-grid", "spec": spec, "observers": obs}


def gen_diffusion_graph(tier):
    # all simple graphs on 1..4 nodes (2^(n(n-1)/2) edge sets), distinct volumes / surfaces / distances
    k = 0
    for n in (1, 2, 3, 4):
        pairs = list(itertools.combinations(range(n), 2))
        for mask in range(2 ** len(pairs)):
            edges = []
            for b, (i, j) in enumerate(pairs):
                if mask >> b & 1:
                    # alternate the orientation in which the edge is declared
                    ii, jj = (i, j) if (b + mask) % 2 == 0 else (j, i)
                    edges.append([ii, jj, [1.5, 2.5, 3.5, 4.5, 5.5, 6.5][b], [0.75, 1.25, 1.75, 2.25, 2.75, 3.25][b]])
            for em in ([[0] * n] + ([[i % 2 for i in range(n)], [1 - (i % 2) for i in range(n)]] if n > 1 else [])):
                for dp in (DPATS[0], DPATS[1], DPATS[3]):
                    k += 1
                    nodes = [{"vol": [1.0, 8.0, 0.5, 27.0][i], "env": em[i]} for i in range(n)]
                    spec = {"species": [{"label": "A", "D": dp[0]}, {"label": "B", "D": dp[1]}], "reactions": [],
                            "envs": ["e0", "e1"], "space": {"type": "graph", "nodes": nodes, "edges": edges},
                            "state": PRIMES[:2 * n], "units": list(UNITS3[k % 3] if tier == "thorough" else UNITS3[0])}
                    yield {"sub": "diffusion-graph", "spec": spec, "observers": ["kin", "euler"]}
                    if k % 3 == 0 and n >= 2:
                        # geometry written as text quantities, each in a length unit of its own; an order-2 reaction makes
                        # the node volumes matter beyond diffusion
                        sp2 = dict(spec, reactions=[{"eq": [[["A", 2]], [["B", 1]]], "kf": 0.02, "kr": 0.3}])
                        yield {"sub": "graph-written", "spec": sp2, "observers": ["kin", "euler"], "written": True}


CATALOGUE = [
    [[], [["A", 1]]],                     # 0 -> A
    [[["A", 1]], []],                     # A -> 0
    [[["A", 1]], [["B", 1]]],
    [[["A", 1], ["B", 1]], [["C", 1]]],
    [[["A", 2]], [["B", 1]]],
    [[["A", 1]], [["A", 1], ["B", 1]]],
    [[["B", 1], ["C", 1]], [["A", 1]]],
    [[["C", 2]], []],
]


def gen_layout(tier):
    confs = [(["e0", "e1"], [0, 1], "grid", (2, 1, 1)), (["e0", "e1", "e2"], [2, 0, 1], "grid", (1, 3, 1)),
             (["e0", "e1", "e2"], [1, 2, 0], "graph", None)]
    k = 0
    for i, r1 in enumerate(CATALOGUE):
        for j, r2 in enumerate(CATALOGUE):
            for envs, em, gtype, shape in confs:
                k += 1
                if tier == "quick" and (i + j + k) % 3 != 0:
                    continue
                n = len(em)
                ks = PRIMES[3:]
                kf1 = {e: ks[q] for q, e in enumerate(envs)}
                kr1 = {e: ks[3 + q] for q, e in enumerate(envs)}
                kf2 = {e: ks[6 + q] for q, e in enumerate(envs)}
                kr2 = {e: ks[9 + q] for q, e in enumerate(envs)}
                D = [{e: [2.0, 3.0, 5.0][(q + s) % 3] for q, e in enumerate(envs)} for s in range(3)]
                if gtype == "grid":
                    space = {"type": "grid", "w": shape[0], "h": shape[1], "d": shape[2], "env": em, "vol": 2.0}
                else:
                    space = {"type": "graph", "nodes": [{"vol": [1.0, 8.0, 0.5][q], "env": em[q]} for q in range(n)],
                             "edges": [[0, 1, 1.5, 0.75], [2, 1, 2.5, 1.25]]}
                spec = {"species": [{"label": l, "D": D[s]} for s, l in enumerate("ABC")],
                        "reactions": [{"eq": r1, "kf": kf1, "kr": kr1}, {"eq": r2, "kf": kf2, "kr": kr2}],
                        "envs": envs, "space": space, "state": [p / 2 for p in PRIMES[:3 * n]],
                        "units": list(UNITS3[k % 3] if tier == "thorough" else UNITS3[0])}
                yield {"sub": "layout-" + gtype, "spec": spec, "observers": ["kin", "euler"]}


# ---- histories: the same system object is modified through its public setters, then observed ----------------

HIST_OPS = [("state", 1, 23.5), ("state", 4, 0.0), ("kf", 0, {"e0": 1.25, "e1": 2.75}), ("kr", 0, 4.5), ("D", 1, {"e1": 1.5, "default": 0.25}),
            ("env", 1, 0), ("vol", 0, 4.0), ("chem", 2, 1)]


def apply_hist_op(system, spec, op):
    """Applies one modification to the live system object AND to the plain spec the reference is computed from."""
    kind, i, v = op
    n = ratelaw.ncells(spec["space"])
    if kind == "state":
        s, c = divmod(i, n)
        system.set_state(s, c, v)
        spec["state"][i] = float(v)
    elif kind in ("kf", "kr"):
        r = system.network.reactions[i]
        setattr(r, kind, v)
        spec["reactions"][i][kind] = v
    elif kind == "D":
        system.network.species[i].D = v
        spec["species"][i]["D"] = v
    elif kind == "env":
        if spec["space"]["type"] == "grid":
            em = list(spec["space"]["env"])
            em[i] = v
            system.space.cell_env = em
            spec["space"]["env"] = em
        else:
            system.space.nodes[i].environment = v
            spec["space"]["nodes"][i]["env"] = v
    elif kind == "vol":
        if spec["space"]["type"] == "grid":
            system.space.cell_vol = v
            spec["space"]["vol"] = float(v)
        else:
            system.space.nodes[i].volume = v
            spec["space"]["nodes"][i]["vol"] = float(v)
    elif kind == "chem":
        s, c = divmod(i, n)
        system.set_chemostat(s, c, v)
        spec["chemostats"][i] = int(v)


def hist_spec(gtype):
    envs = ["e0", "e1"]
    if gtype == "grid":
        space = {"type": "grid", "w": 3, "h": 1, "d": 1, "env": [0, 1, 1], "vol": 2.0, "bc": {"x": "periodical"}}
    else:
        space = {"type": "graph", "nodes": [{"vol": 1.0, "env": 0}, {"vol": 8.0, "env": 1}, {"vol": 0.5, "env": 1}],
                 "edges": [[0, 1, 1.5, 0.75], [2, 1, 2.5, 1.25]]}
    return {"species": [{"label": "A", "D": {"e0": 2.0, "e1": 6.0}}, {"label": "B", "D": 3.0}],
            "reactions": [{"eq": [[["A", 1], ["B", 1]], [["B", 2]]], "kf": {"e0": 3.0, "default": 2.0}, "kr": 0.5}],
            "envs": envs, "space": space, "state": [2.0, 3.0, 5.0, 7.0, 11.0, 13.0], "chemostats": [0, 0, 0, 0, 0, 0]}


def check_script_history(case):
    """The SAME script object is simulated, its system modified through the public setters, and simulated again
    (a parameter scan); every run's Euler step must follow the law of the system as it is at that moment."""
    import copy
    out = []
    spec = copy.deepcopy(hist_spec(case["gtype"]))
    try:
        script = models.build_script({"system": spec, "t_sample": [0], "time_step": DT, "t_max": 0, "policy": "on_iteration"})
    except Exception as e:
        return [("C01:build:unexpected-exception", "%s: %s" % (type(e).__name__, e))]
    system = script.system            # the script's own copy: what the engine will be given
    engine = eng.make_engine("euler")
    for q in range(len(case["ops"]) + 1):
        if q > 0:
            try:
                apply_hist_op(system, spec, HIST_OPS[case["ops"][q - 1]])
            except Exception as e:
                return out + [("C01:history:setter-exception:%s" % HIST_OPS[case["ops"][q - 1]][0], "%s: %s" % (type(e).__name__, e))]
        f, sc = ratelaw.rhs(spec, apply_chemostats=True)
        last = HIST_OPS[case["ops"][q - 1]][0] if q > 0 else "construction"
        try:
            if case.get("warm"):
                for r in system.network.reactions:      # what make_dxdtf / the engines do internally
                    r.split()
                kinetics.compute_dstatedt(system)
            traj, nit = eng.run_to_completion(engine, script)
            t, d = models.traj_arrays(traj)
            got = [(b - a_) / DT for a_, b in zip(d[0], d[1])]
            extra = [8e-16 * (abs(a_) + abs(b)) / DT for a_, b in zip(d[0], d[1])]
            before = len(out)
            _cmp("euler-step:script-history-%s:after-%s" % (case["gtype"], last), got, f, sc, extra, out)
            if len(out) > before:
                return out
            a = kinetics.compute_dstatedt(system)
            _cmp("compute_dstatedt:script-history-%s:after-%s" % (case["gtype"], last), [float(v) for v in a.value], f, sc, [0.0] * len(f), out)
            if len(out) > before:
                return out
        except Exception as e:
            out.append(("C01:euler:script-history:unexpected-exception", "%s: %s" % (type(e).__name__, e)))
            return out
    return out


def check_history(case):
    import copy
    if case.get("script_object"):
        return check_script_history(case)
    out = []
    spec = hist_spec(case["gtype"])
    try:
        system = models.build_system(spec)
    except Exception as e:
        return [("C01:build:unexpected-exception", "%s: %s" % (type(e).__name__, e))]
    spec = copy.deepcopy(spec)
    for q, opi in enumerate(case["ops"]):
        op = HIST_OPS[opi]
        if case.get("observe_before") and q == len(case["ops"]) - 1:
            # an observation between the modifications (warms any cache a future refactor might add)
            try:
                kinetics.compute_dstatedt(system)
                models.build_script({"system": spec, "t_sample": [0], "time_step": DT, "t_max": 0, "policy": "on_iteration"}, system=system)
            except Exception:
                pass
        try:
            apply_hist_op(system, spec, op)
        except Exception as e:
            return [("C01:history:setter-exception:%s" % op[0], "%s: %s" % (type(e).__name__, e))]
    sub = {"sub": "history-" + case["gtype"], "spec": spec, "observers": ["kin", "euler"]}
    f, sc = ratelaw.rhs(spec, apply_chemostats=True)
    n = len(f)
    zeros = [0.0] * n
    try:
        a = kinetics.compute_dstatedt(system)
        _cmp("compute_dstatedt:history-%s:after-%s" % (case["gtype"], HIST_OPS[case["ops"][-1]][0]), [float(v) for v in a.value], f, sc, zeros, out)
    except Exception as e:
        out.append(("C01:compute_dstatedt:history:unexpected-exception", "%s: %s" % (type(e).__name__, e)))
    try:
        scr = models.build_script({"system": spec, "t_sample": [0], "time_step": DT, "t_max": 0, "policy": "on_iteration"}, system=system)
        traj, nit = eng.simulate("euler", scr)
        t, d = models.traj_arrays(traj)
        got = [(b - a_) / DT for a_, b in zip(d[0], d[1])]
        extra = [8e-16 * (abs(a_) + abs(b)) / DT for a_, b in zip(d[0], d[1])]
        _cmp("euler-step:history-%s:after-%s" % (case["gtype"], HIST_OPS[case["ops"][-1]][0]), got, f, sc, extra, out)
    except Exception as e:
        out.append(("C01:euler:history:unexpected-exception", "%s: %s" % (type(e).__name__, e)))
    return out


def gen_history(tier):
    nops = len(HIST_OPS)
    for gtype in ("grid", "graph"):
        for a in range(nops):
            yield {"sub": "history-" + gtype, "history": True, "gtype": gtype, "ops": [a]}
        for a in range(nops):
            for b in range(nops):
                for ob in ((False, True) if tier == "thorough" else (True,)):
                    yield {"sub": "history-" + gtype, "history": True, "gtype": gtype, "ops": [a, b], "observe_before": ob}
        # the same script object simulated between modifications of its system (parameter scan)
        for a in range(nops):
            for warm in (False, True):
                yield {"sub": "script-history-" + gtype, "history": True, "script_object": True, "gtype": gtype, "ops": [a], "warm": warm}
        for a in range(nops):
            for b in range(nops):
                if tier == "thorough" or (a + b) % 2 == 0:
                    yield {"sub": "script-history-" + gtype, "history": True, "script_object": True, "gtype": gtype, "ops": [a, b], "warm": (a + b) % 4 < 2}


def gen_big(tier):
    """Beyond the small scope: 4 species, 3 reactions (orders up to 3), 5 environments (listed in another order than the cell
    map uses them), grids with all three dimensions different and > 1, a 6-node graph whose edges are declared in both
    orientations; and extreme magnitudes of D, k and volume (no absolute thresholds may hide in the rate law)."""
    envs = ["e4", "e0", "e3", "e1", "e2"]
    rx = [{"eq": [[["A", 1], ["B", 1]], [["C", 1]]], "kf": {"e0": 0.5, "e1": 0.25, "e2": 2.0, "e3": 0.0, "e4": 1.5}, "kr": 0.75},
          {"eq": [[["C", 2], ["D", 1]], [["A", 1]]], "kf": 0.125, "kr": {"e2": 3.0, "default": 0.5}},
          {"eq": [[["D", 1]], [["B", 1], ["D", 1]]], "kf": {"e4": 2.5, "e1": 0.5}, "kr": 0.0}]
    Dm = [{"e0": 2.0, "e1": 6.0, "e2": 1.0, "e3": 0.0, "e4": 3.0}, 1.5, {"e1": 4.0, "default": 0.5}, {"e2": 2.0}]
    k = 0
    for scale_name, sD, sk, vol in (("unit", 1.0, 1.0, 2.0), ("tiny-D", 1e-20, 1.0, 2.0), ("huge-D", 1e12, 1.0, 2.0),
                                    ("tiny-k-huge-volume", 1.0, 1e-15, 1e9), ("huge-k-tiny-volume", 1.0, 1e9, 1e-6),
                                    ("D-near-the-bottom-of-the-double-range", 1e-170, 0.0, 2.0),
                                    ("D-near-the-top-of-the-double-range", 1e150, 0.0, 2.0)):
        def sc(v, f):
            return {a: b * f for a, b in v.items()} if isinstance(v, dict) else v * f
        species = [{"label": l, "D": sc(Dm[i], sD)} for i, l in enumerate("ABCD")]
        reactions = [{"eq": r["eq"], "kf": sc(r["kf"], sk), "kr": sc(r["kr"], sk)} for r in rx]
        shapes = [(4, 3, 2), (3, 2, 3), (4, 3, 3), (2, 3, 4), (3, 4, 3), (3, 3, 4), (3, 4, 5), (5, 1, 2)] if tier == "thorough" else [(4, 3, 2), (3, 2, 3), (4, 3, 3), (3, 4, 3), (3, 3, 4)]
        for (w, h, d) in shapes:
            n = w * h * d
            for bc in ({"x": "periodical", "z": "periodical"}, {}):
                k += 1
                spec = {"species": species, "reactions": reactions, "envs": envs,
                        "space": {"type": "grid", "w": w, "h": h, "d": d, "bc": bc, "env": [(3 * i + i // 5) % 5 for i in range(n)], "vol": vol},
                        "state": [1.0 + ((7 * q) % 13) for q in range(4 * n)]}
                yield {"sub": "big-grid:" + scale_name, "spec": spec, "observers": ["euler"] + (["kin"] if (k % 4 == 1 and n <= 24 and tier == "thorough") else [])}
        nodes = [{"vol": vol * [1.0, 8.0, 0.5, 27.0, 2.0, 3.0][i], "env": [4, 0, 2, 1, 3, 0][i]} for i in range(6)]
        edges = [[0, 1, 1.5, 0.75], [2, 1, 2.5, 1.25], [2, 3, 0.5, 2.0], [4, 3, 3.5, 0.25], [4, 5, 1.0, 1.0], [0, 5, 2.0, 1.5], [5, 2, 0.75, 3.0]]
        spec = {"species": species, "reactions": reactions, "envs": envs, "space": {"type": "graph", "nodes": nodes, "edges": edges},
                "state": [1.0 + ((7 * q) % 13) for q in range(24)]}
        yield {"sub": "big-graph:" + scale_name, "spec": spec, "observers": ["euler", "kin"]}


_CASES = None


def _work(job):
    lo, hi = job
    acc = core.Acc()
    for case in _CASES[lo:hi]:
        if case.get("history"):
            res = check_history(case)
            acc.add(states=1, transitions=len(case["ops"]) + 2, traces=2, evaluations=12, nontrivial=1)
            acc.count("cases:" + case["sub"])
            for key, what in res:
                acc.violation(key, what, case)
            continue
        res = check_case(case)
        nobs = len(case["observers"])
        f, sc = ratelaw.rhs(case["spec"])
        nz = sum(1 for s in sc if s > 0)
        acc.add(states=1, transitions=nobs, traces=nobs, evaluations=len(f) * nobs, nontrivial=1 if nz else 0)
        acc.count("cases:" + case["sub"])
        acc.count("entries_with_nonzero_terms", nz)
        for o in case["observers"]:
            acc.count("observer:" + o)
        for key, what in res:
            acc.violation(key, what, case)
    if lo == 0:
        acc.sample(_CASES[0])
    return acc.pack()


def run(ctx):
    global _CASES
    gens = [("reaction law: every reversible reaction over 2 species with 0..4 molecules per side (225) and over 3 "
             "species with 0..2 per side (100) x 6 constant patterns (incl. 'default' written before the environment's entry) x cell in each of 3 environments x 3 volumes x "
             "3 states x {grid, graph}" + (" [quick: fixed 1/9 sub-lattice of the non-reaction dimensions]" if ctx.tier == "quick" else ""),
             gen_reaction),
            ("diffusion law on grids: shapes w,h,d<=3 within the cell bound x boundary combinations x environment "
             "maps (all maps for <=4 cells) x D patterns incl. a zero-D wall", gen_diffusion_grid),
            ("diffusion law on graphs: all simple graphs on 1..4 nodes x environment maps x D patterns; every third one again with 2A<->B and its geometry written as text quantities in per-node / per-edge length units", gen_diffusion_graph),
            ("layout: all ordered pairs of an 8-reaction catalogue x 3 environment/cell configurations", gen_layout),
            ("beyond the small scope: 4 species / 3 reactions / 5 environments on 4x3x2-like grids and a 6-node graph, x 5 magnitude "
             "regimes (D 1e-170..1e150, k 1e-15..1e9, volume 1e-6..1e9)", gen_big),
            ("histories: one system object modified through its public setters (state entry, kf, kr, D, cell environment, volume, "
             "chemostat flag) - every single modification and every ordered pair of 8 - then observed (kinetics + Euler step); and "
             "the same script object simulated before and after each modification of its system (parameter scan)", gen_history)]
    _CASES = []
    sizes = []
    for name, g in gens:
        lst = list(g(ctx.tier))
        sizes.append((name, len(lst)))
        _CASES.extend(lst)
    eng.so_path("plain")   # build once in the parent
    jobs = pool.chunks(len(_CASES), 40)
    res = pool.pmap(_work, jobs, timeout=900)
    done = 0
    for job, r in zip(jobs, res):
        if isinstance(r, pool.Crash):
            ctx.violation("C01:engine-or-checker:worker-%s" % r.kind, r.detail, {"job": list(job), "first_case": _CASES[job[0]]})
            continue
        core.merge(ctx, r)
        done += job[1] - job[0]
    for name, sz in sizes:
        ctx.subspace(name, sz, sz, exhaustive=(done == len(_CASES)))
    ctx.rule("each case = one (network, space, state, unit system); every (species, cell) entry of every observer "
             "is compared with the reference rate law; a case is non-trivial when at least one entry has a non-zero "
             "term; cases are distinct tuples of the enumerated products")
    ctx.assume("reference rate law mc/ref/ratelaw.py (DESIGN A.2); tolerance 1e-9 x sum of absolute terms; Euler step "
               "observed as (x1-x0)/dt with dt = 2^-10")
    ctx.note("engine_build", eng.so_path("plain"))


def replay(case):
    if case.get("history"):
        return check_history(case)
    return check_case(case)
