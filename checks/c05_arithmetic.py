"""C05 — arithmetic on quantities is arithmetic on their SI values, or an error.

E1 bounded-exhaustive enumeration of expressions (depth 1 and depth 2) over operators x operand kinds x unit
systems x dimension vectors x magnitudes on the real UnitValue / UnitArray operators, against exact rational
arithmetic on SI values (mc/ref/arith.py on top of mc/ref/si.py).

Every case is an expression tree in JSON: a leaf is an operand
    {"k": "uv", "v": 41.0, "sys": [...], "dim": [...]}   scalar quantity        (UnitValue)
    {"k": "ua", "v": [41.0, 123.0], "sys": ..., "dim": ...} array quantity      (UnitArray)
    {"k": "int", "v": 3} / {"k": "float", "v": 2.5}       plain number
and a node is {"op": name, "args": [tree, ...]} (plus "p": [num, den] for pow).  check_case evaluates the tree
bottom-up on the real code, and every node's result against the exact value of the same node of the tree.
"""
import functools
import operator
from fractions import Fraction as F

import numpy as np

from mc import core, pool, uq
from mc.ref import si, arith

core.setup_paths()
from strengths.units import UnitValue, UnitArray  # noqa: E402

OPF = {"add": operator.add, "sub": operator.sub, "mul": operator.mul, "div": operator.truediv,
       "mod": operator.mod, "eq": operator.eq, "ne": operator.ne, "lt": operator.lt, "le": operator.le,
       "gt": operator.gt, "ge": operator.ge, "neg": operator.neg, "abs": abs, "pow": operator.pow}
QK = ("uv", "ua")
NK = ("int", "float")


@functools.lru_cache(maxsize=None)
def _scale(sys3, dim):
    return si.si_scale(sys3, dim)


# ---- evaluation of one case ------------------------------------------------------------------------

class _Stop(Exception):
    """The expression has no further verdict (it raised as specified, a violation was already recorded
    below this node, or the outcome is discontinuous and inside the near-tie band)."""


@functools.lru_cache(maxsize=None)
def _units(sys3, dim):
    """A Units object per (system, dimension); the constructors of UnitValue / UnitArray copy it."""
    return uq.mk_units(sys3, dim)


class _Rejected(Exception):
    """The library refused to build a quantity from this carrier (counted, never reported)."""


CARRIER_DTYPE = {"f64": np.float64, "f32": np.float32, "i64": np.int64, "i32": np.int32, "u8": np.uint8,
                 "i8": np.int8}


SCALAR_TYPE = {"np.int64": np.int64, "np.int32": np.int32, "np.uint8": np.uint8, "np.float64": np.float64,
               "np.float32": np.float32}


def _container(carrier, vals):
    """The same numbers in another container."""
    if carrier == "list":
        return [float(v) for v in vals]
    if carrier == "tuple":
        return tuple(float(v) for v in vals)
    if carrier == "pyints":
        return [int(v) for v in vals]
    arr = np.array(vals, dtype=CARRIER_DTYPE[carrier])
    if [F(x.item()) for x in arr] != [F(v) for v in vals]:
        raise ValueError("numbers %r are not representable in %s" % (vals, carrier))      # checker error
    return arr


def _build_carrier(leaf):
    cont = _container(leaf["carrier"], leaf["v"])
    units = _units(tuple(leaf["sys"]), tuple(leaf["dim"]))
    try:
        if leaf.get("via", "ctor") == "ctor":
            return UnitArray(cont, units)
        a = UnitArray([0.0] * len(leaf["v"]), units)
        a.value = cont
        return a
    except Exception as e:      # noqa: BLE001
        raise _Rejected("%s: %s" % (type(e).__name__, e))


def _build(leaf):
    k = leaf["k"]
    if "carrier" in leaf:
        return _build_carrier(leaf)
    if k == "uv":
        return UnitValue(leaf["v"], _units(tuple(leaf["sys"]), tuple(leaf["dim"])))
    if k == "ua":
        return UnitArray(list(leaf["v"]), _units(tuple(leaf["sys"]), tuple(leaf["dim"])))
    if "scalar" in leaf:        # the same plain number as a numpy scalar
        x = SCALAR_TYPE[leaf["scalar"]](leaf["v"])
        if F(x.item()) != F(leaf["v"]):
            raise ValueError("%r is not representable as %s" % (leaf["v"], leaf["scalar"]))       # checker error
        return x
    if k == "int":
        return int(leaf["v"])
    if k == "float":
        return float(leaf["v"])
    raise ValueError(k)


def _snap(x):
    if isinstance(x, UnitValue):
        return ("uv", x.value, uq.sys_of(x.units), uq.dim_of(x.units))
    if isinstance(x, UnitArray):
        return ("ua", [float(v) for v in x.value], uq.sys_of(x.units), uq.dim_of(x.units))
    return (type(x).__name__, x)


def _si_vals(q):
    """Exact SI values of a strengths quantity from its stored numbers and stored units; raises
    OverflowError / ValueError for inf / nan."""
    sc = _scale(uq.sys_of(q.units), uq.dim_of(q.units))
    if isinstance(q, UnitValue):
        return [F(q.value) * sc]
    return [F(float(x)) * sc for x in q.value]


def _unit_of(q):
    return _scale(uq.sys_of(q.units), uq.dim_of(q.units))


def _leaf_ref(leaf, obj):
    if leaf["k"] in NK:
        return arith.Num(F(leaf["v"]) if "scalar" in leaf else F(obj))
    if "carrier" in leaf:       # the quantity means the numbers that were handed over, whatever the container
        sc = _scale(tuple(leaf["sys"]), tuple(leaf["dim"]))
        return arith.Qty([F(v) * sc for v in leaf["v"]], leaf["dim"], True, unit=sc)
    return arith.Qty(_si_vals(obj), uq.dim_of(obj.units), leaf["k"] == "ua", unit=_unit_of(obj))


def _check_quantity(site, got, dim, arr, n, out):
    """Type, dimension, length of a returned quantity; returns its exact SI values or None."""
    want = UnitArray if arr else UnitValue
    if type(got) is not want:
        out.append(("C05:%s:result-type" % site, "returned %s (%r), expected a %s"
                    % (type(got).__name__, got, want.__name__)))
        return None
    gdim = uq.dim_of(got.units)
    if gdim != tuple(dim):
        out.append(("C05:%s:dimension" % site, "result has dimension %s, exact arithmetic gives %s"
                    % (gdim, tuple(dim))))
        return None
    try:
        vals = _si_vals(got)
    except (OverflowError, ValueError):
        out.append(("C05:%s:not-finite" % site, "result %s is not finite" % (got,)))
        return None
    if len(vals) != n:
        out.append(("C05:%s:length" % site, "result has %d element(s), expected %d" % (len(vals), n)))
        return None
    return vals


def _aliased(got, objs):
    if not isinstance(got, (UnitValue, UnitArray)):
        return False
    for o in objs:
        if isinstance(o, (UnitValue, UnitArray)):
            if got.units is o.units or got.units.sys is o.units.sys or got.units.dim is o.units.dim:
                return True
            if isinstance(got, UnitArray) and isinstance(o, UnitArray) and got.value is o.value:
                return True
    return False


def _ev(node, out, flags, prefix=""):
    """-> (real object, reference operand, kind string, is_leaf).  A leaf may carry a live object ("_obj",
    history cases: the operand is an object with a past); its reference value is then read from the object's
    current stored numbers and units."""
    if "op" not in node:
        obj = node["_obj"] if "_obj" in node else _build(node)
        kind = node["k"] + ("." + node["carrier"] if "carrier" in node else "")
        if "scalar" in node:
            kind = node["scalar"]
        return obj, _leaf_ref(node, obj), kind, True
    op = node["op"]
    sub = [_ev(x, out, flags, prefix) for x in node["args"]]
    objs = [s[0] for s in sub]
    refs = [s[1] for s in sub]
    kinds = [s[2] for s in sub]
    site = "%s%s:%s" % (prefix, op, ",".join(kinds))
    before = [_snap(o) for o in objs]

    # ---- what the statement specifies
    res = None          # Resolved, for mod
    if op in ("add", "sub", "mul", "div"):
        exp = arith.arith(op, refs[0], refs[1])
    elif op == "mod":
        res = arith.resolve(op, refs[0], refs[1])
        exp = res if isinstance(res, arith.Raises) else None
    elif op in arith.COMPARE:
        lk = [a.get("k") for a in node["args"]]
        exact_tie = sub[0][3] and sub[1][3] and (
            lk[0] in NK or lk[1] in NK or node["args"][0]["sys"] == node["args"][1]["sys"])
        exp = arith.compare(op, refs[0], refs[1], tie_is_exact=exact_tie)
    elif op in arith.UNARY:
        exp = arith.unary(op, refs[0])
    elif op == "pow":
        exp = arith.power(refs[0], node["p"][0], node["p"][1])
    else:
        raise ValueError(op)
    if isinstance(exp, arith.Skip) and op != "pow" and op not in arith.COMPARE:
        flags.append("skipped:" + exp.why)
        raise _Stop()

    # ---- the real operation
    exc = None
    got = None
    try:
        if op == "pow":
            num, den = node["p"]
            pw = num if den == 1 and not node.get("pfloat") else num / den
            if "pscalar" in node:
                pw = SCALAR_TYPE[node["pscalar"]](pw)
            got = objs[0] ** pw
        elif len(objs) == 1:
            got = OPF[op](objs[0])
        else:
            got = OPF[op](objs[0], objs[1])
    except Exception as e:      # noqa: BLE001 - any exception is "raised"
        exc = e
    flags.append("op")
    if "_rec" in node:
        node["_rec"].append((exc, got))
    sc = [a["scalar"] for a in node["args"] if "scalar" in a] + ([node["pscalar"]] if "pscalar" in node else [])
    if exc is not None and sc and not isinstance(exp, arith.Raises):
        # the library refuses this type of plain number: counted, not reported (only wrong answers are)
        flags.append("scalar_carrier_rejected:%s:%s" % (op, sc[0]))
        raise _Stop()

    after = [_snap(o) for o in objs]
    if after != before:
        out.append(("C05:%s:operand-mutated" % site, "operands %r became %r" % (before, after)))
        raise _Stop()
    if _aliased(got, objs):
        flags.append("result_shares_an_object_with_an_operand")

    if isinstance(exp, arith.Raises):
        flags.append("must_raise")
        if exc is None:
            cls = {"dimension": "dimension-mismatch-accepted", "length": "length-mismatch-accepted",
                   "exponent": "nonintegral-exponent-accepted"}[exp.why]
            out.append(("C05:%s:%s" % (site, cls), "returned %s instead of raising (%s)" % (got, exp.why)))
        else:
            flags.append("raised_as_specified")
        raise _Stop()
    if isinstance(exp, arith.Skip):
        # comparison near-tie / power outside the reals: any outcome accepted
        flags.append("skipped:" + exp.why)
        raise _Stop()
    if exc is not None:
        out.append(("C05:%s:unexpected-exception" % site,
                    "%s: %s (a value is specified)" % (type(exc).__name__, exc)))
        raise _Stop()

    # ---- compare
    if op in arith.COMPARE:
        if not isinstance(got, (bool, np.bool_)):
            out.append(("C05:%s:result-type" % site, "comparison returned %r, expected True/False" % (got,)))
            raise _Stop()
        flags.append("decided_true" if exp else "decided_false")
        if bool(got) != exp:
            out.append(("C05:%s:wrong-outcome" % site, "returned %s, exact SI values give %s" % (bool(got), exp)))
        raise _Stop()       # a bool is never an operand of a further node

    if op == "pow":
        if "pscalar" in node:
            site = "pow:uv,%s" % node["pscalar"]
        elif node.get("pfloat"):
            site = "pow:uv,float"
        vals = _check_quantity(site, got, exp.dim, False, 1, out)
        if vals is None:
            raise _Stop()
        dev = arith.check_root(exp, vals[0])
        if dev is not None:
            out.append(("C05:%s:value" % site, "SI value %s, exact %s (relative deviation %.3e > 1e-12)"
                        % (arith.fmt(vals[0]), arith.root_float(exp), dev)))
        raise _Stop()       # pow is only used as the outermost node

    if op == "mod":
        vals = _check_quantity(site, got, res.dim, res.arr, res.n, out)
        if vals is None:
            raise _Stop()
        near = False
        for i in range(res.n):
            problem, nt = arith.check_mod(res.a[i], res.sa[i], res.b[i], res.sb[i], vals[i])
            near = near or nt
            if problem:
                out.append(("C05:%s:%s" % (site, problem),
                            "element %d: %s %% %s returned %s (all in SI)"
                            % (i, arith.fmt(res.a[i]), arith.fmt(res.b[i]), arith.fmt(vals[i]))))
                raise _Stop()
        if near:
            flags.append("skipped:modulo near-tie")
            raise _Stop()
        exp = arith.arith(op, refs[0], refs[1])
    else:
        vals = _check_quantity(site, got, exp.dim, exp.arr, len(exp.vals), out)
        if vals is None:
            raise _Stop()
        for i, (g, e, s) in enumerate(zip(vals, exp.vals, exp.scales)):
            if not arith.close(g, e, s):
                out.append(("C05:%s:value" % site,
                            "element %d: SI value %s, exact %s (deviation %.3e of the operand scale %s, > 1e-12)"
                            % (i, arith.fmt(g), arith.fmt(e), float(abs(g - e) / s) if s else float("inf"),
                               arith.fmt(s))))
                raise _Stop()
    kind = "x" + ("ua" if exp.arr else "uv")
    return got, exp.with_unit(_unit_of(got)), kind, False


def _leaves(node):
    if "op" not in node:
        return [node]
    r = []
    for x in node["args"]:
        r.extend(_leaves(x))
    return r


def _evaluate(case):
    if "hist" in case:
        return _eval_history(case)
    out, flags = [], []
    try:
        try:
            _ev(case["expr"], out, flags)
        except _Stop:
            pass
        except _Rejected:
            flags.append("carrier_rejected")
        out, flags = _observed_only(case["expr"], out, flags)
    except Exception as e:      # noqa: BLE001 - construction of an operand failed, or the checker is wrong
        out.append(("C05:%s:unexpected-exception" % case.get("sub", "case"),
                    "%s: %s (outside an operator call)" % (type(e).__name__, e)))
    return out, flags


# numpy scalar types under which numpy itself carries out part of the arithmetic with its own promotion rules
# (NEP 50: a python float next to np.float32 computes in float32; unary minus of an unsigned scalar wraps).  The
# statement's "plain numbers" are python numbers and the numpy scalars that compute in double precision without
# wrap-around; these two are enumerated and OBSERVED, not judged - except that a comparison must return a real bool
# whatever the type, with the exact outcome when the number is a small integer (exact in float32 / uint8).
OBSERVED_ONLY = ("np.uint8", "np.float32")


def _observed_only(expr, out, flags):
    if "op" not in expr:
        return out, flags
    sc = [a["scalar"] for a in expr["args"] if "scalar" in a] + ([expr["pscalar"]] if "pscalar" in expr else [])
    if not sc or sc[0] not in OBSERVED_ONLY:
        return out, flags
    op, typ = expr["op"], sc[0]
    rejected = [f for f in flags if f.startswith("scalar_carrier_rejected:")]
    status = "rejected" if rejected else ("inexact" if out else "exact")
    keep = []
    if op in arith.COMPARE:
        num = [a for a in expr["args"] if "scalar" in a][0]
        integral = F(num["v"]).denominator == 1
        keep = [v for v in out if v[0].endswith(":result-type") or (integral and v[0].endswith(":wrong-outcome"))]
    flags = [f for f in flags if not f.startswith("scalar_carrier_rejected:")]
    flags.append("scalar_carrier_observed:%s:%s:%s" % (op, typ, status))
    return keep, flags


def check_case(case):
    """One case; returns [(key, what)]."""
    return _evaluate(case)[0]


# ---- histories on the SAME operand objects (E2) --------------------------------------------------------
#
# A history case is {"sub": "history", "hist": {"X": leaf, "P": leaf, "Z": system, "op": name, "steps": [...]}}.
# X (the subject) and P (the partner) are built once; the steps are applied in order to these two objects:
#   L  X op P        R  P op X        U  -X        D  X * Units("")-quantity 3 built on the spot (and 3/X)
#   set_at   X.set_at(i, UnitValue in system Z)          inplace    X.value[i] = x        (arrays)
#   setter   X.value = [...] / X.value = x               set_value  X.set_value([... one more element])
#   relabel  X.units = Units(other system, same dimension)
#   conv     X.convert(UnitsSystem)                      convd      X.convert({"time": t})  (documented defaults)
# After every operator call the result is compared (1) with exact arithmetic on the operands' CURRENT stored
# numbers and units, read back from the objects just before the call (the property as stated), and (2) with the
# same call on fresh objects built from those current numbers and units.  At the end, constructions that rely on
# the module's defaults must give what they gave when the module was imported.

RK = [2.37, -5.6, 0.43, 12.85, 31.3, -0.77, 4.61, -9.23]      # SI ratios new-value / partner (no near-integers)
OPSTEPS = ("L", "R", "U")
UA_STEPS = ("L", "R", "U", "D", "set_at", "inplace", "setter", "set_value", "relabel", "conv", "convd")
UV_STEPS = ("L", "R", "U", "D", "setter", "relabel", "conv", "convd")


def _probe():
    """Outcomes of constructions that depend on module-level defaults only."""
    from strengths.units import parse_units, unitssystem_from_dict
    res = []
    for f in (lambda: uq.sys_of(parse_units("")), lambda: uq.sys_of(parse_units("m")),
              lambda: (lambda u: (u.space, u.time, u.quantity))(unitssystem_from_dict({"space": "m"})),
              lambda: (lambda u: (u.space, u.time, u.quantity))(unitssystem_from_dict({"time": "h"})),
              lambda: _snap(UnitValue(3.0))):
        try:
            res.append(repr(f()))
        except Exception as e:      # noqa: BLE001
            res.append("raises " + type(e).__name__)
    return res


_BASE_PROBE = _probe()


def _leaf_of(obj):
    """JSON leaf describing the current state of an operand object."""
    if isinstance(obj, UnitValue):
        return {"k": "uv", "v": obj.value, "sys": list(uq.sys_of(obj.units)), "dim": list(uq.dim_of(obj.units))}
    if isinstance(obj, UnitArray):
        return {"k": "ua", "v": [float(x) for x in obj.value], "sys": list(uq.sys_of(obj.units)),
                "dim": list(uq.dim_of(obj.units))}
    return {"k": "int" if isinstance(obj, int) else "float", "v": obj}


def _outcome(exc, got):
    """Comparable summary of what an operator call did."""
    if exc is not None:
        return ("raises",)
    if isinstance(got, (bool, np.bool_)):
        return ("bool", bool(got))
    if isinstance(got, (UnitValue, UnitArray)):
        try:
            return (type(got).__name__, uq.dim_of(got.units), _si_vals(got))
        except (OverflowError, ValueError):
            return (type(got).__name__, uq.dim_of(got.units), "not finite")
    return ("other", repr(got))


def _same_outcome(a, b, scales):
    if a[:2] != b[:2] or len(a) != len(b):
        return False
    if len(a) == 3:
        if isinstance(a[2], str) or isinstance(b[2], str) or len(a[2]) != len(b[2]):
            return a[2] == b[2]
        for i, (x, y) in enumerate(zip(a[2], b[2])):
            s = max(abs(x), abs(y)) + (scales[i if len(scales) > 1 else 0] if scales else 0)
            if x != y and not arith.close(x, y, s):
                return False
    return True


def _hist_op(op, objs, out, flags, prefix):
    """One operator call on live objects: oracle on their current state + the same call on fresh copies."""
    leaves = [_leaf_of(o) for o in objs]
    node = {"op": op, "args": [dict(lf, _obj=o) for lf, o in zip(leaves, objs)], "_rec": []}
    n0 = len(out)
    try:
        _ev(node, out, flags, prefix)
    except _Stop:
        pass
    if len(out) > n0 or not node["_rec"]:
        raise _Stop()
    live = _outcome(*node["_rec"][0])
    fresh_objs = [_build(lf) for lf in leaves]
    try:
        fexc, fgot = None, (OPF[op](*fresh_objs))
    except Exception as e:      # noqa: BLE001
        fexc, fgot = e, None
    flags.append("op")
    fresh = _outcome(fexc, fgot)
    scales = []
    if len(objs) == 2 and op in ("add", "sub", "mod"):
        try:
            r = arith.resolve(op, _leaf_ref(leaves[0], fresh_objs[0]), _leaf_ref(leaves[1], fresh_objs[1]))
            if isinstance(r, arith.Resolved):
                scales = [x + y for x, y in zip(r.sa, r.sb)]
        except ValueError:
            pass
    if not _same_outcome(live, fresh, scales):
        kinds = ",".join(lf["k"] for lf in leaves)
        out.append(("C05:%s%s:%s:differs-from-fresh-operands" % (prefix, op, kinds),
                    "on operands with a past the call gave %s, on fresh operands with the same stored numbers "
                    "and units %s" % (_show(live), _show(fresh))))
        raise _Stop()


def _show(o):
    if len(o) == 3 and not isinstance(o[2], str):
        return "%s dim %s SI %s" % (o[0], o[1], [arith.fmt(x) for x in o[2]])
    return repr(o)


def _other(cur, a, b):
    return tuple(b) if tuple(cur) == tuple(a) else tuple(a)


def _eval_history(case):
    out, flags = [], []
    h = case["hist"]
    try:
        X, P = _build(h["X"]), _build(h["P"])
        op, Z, sys0 = h["op"], tuple(h["Z"]), tuple(h["X"]["sys"])
        dim = tuple(h["X"]["dim"])
        kx = h["X"]["k"]
        psys = tuple(h["P"]["sys"]) if h["P"]["k"] in QK else Z
        for k, sym in enumerate(h["steps"]):
            pre = "history:%s:" % sym
            cur = uq.sys_of(X.units)
            base = (_si_vals(P)[0] if h["P"]["k"] in QK else F(P) * _unit_of(X))
            n = len(X) if kx == "ua" else 1

            def stored(i, sys3):
                return si.to_float(base * F(RK[(2 * k + i) % len(RK)]) / _scale(tuple(sys3), dim))
            if sym == "L":
                _hist_op(op, [X, P], out, flags, pre)
            elif sym == "R":
                _hist_op(op, [P, X], out, flags, pre)
            elif sym == "U":
                _hist_op("neg", [X], out, flags, pre)
            elif sym == "D":
                d = UnitValue(3.0, "")
                _hist_op("mul", [X, d], out, flags, pre)
                _hist_op("div", [UnitValue(3.0, ""), X], out, flags, pre)
            elif sym == "set_at":
                X.set_at(k % n, UnitValue(stored(0, Z), _units(Z, dim)))
                flags.append("mod")
            elif sym == "inplace":
                X.value[k % n] = stored(1, cur)
                flags.append("mod")
            elif sym == "setter":
                X.value = [stored(i, cur) for i in range(n)] if kx == "ua" else stored(0, cur)
                flags.append("mod")
            elif sym == "set_value":
                X.set_value([stored(i, cur) for i in range(n + 1)])
                flags.append("mod")
            elif sym == "relabel":
                X.units = _units(_other(cur, sys0, Z), dim)
                flags.append("mod")
            elif sym in ("conv", "convd"):
                before = _snap(X)
                if sym == "conv":
                    want = psys
                    y = X.convert(uq.mk_sys(psys))
                else:
                    want = (si.DEFAULT[0], psys[1], si.DEFAULT[2])
                    y = X.convert({"time": psys[1]})
                flags.append("mod")
                site = "C05:history:%s:%s" % (sym, kx)
                if _snap(X) != before:
                    out.append((site + ":operand-mutated", "%r became %r" % (before, _snap(X))))
                    break
                vals = _check_quantity("history:%s:%s" % (sym, kx), y, dim, kx == "ua", n, out)
                if vals is None:
                    break
                ysys = uq.sys_of(y.units)
                if any(dim[i] != 0 and ysys[i] != want[i] for i in range(3)):
                    out.append((site + ":wrong-target-unit", "converted into %s, requested %s (documented defaults "
                                "for the keys left out)" % (ysys, want)))
                    break
                for g, e in zip(vals, _si_vals(X)):
                    if not arith.close(g, e, abs(e)):
                        out.append((site + ":value", "SI value %s became %s" % (arith.fmt(e), arith.fmt(g))))
                        raise _Stop()
            else:
                raise ValueError(sym)
        probe = _probe()
        if probe != _BASE_PROBE:
            out.append(("C05:history:module-state:defaults-changed",
                        "constructions that rely on the module defaults gave %s when the module was imported and give "
                        "%s after this history" % (_BASE_PROBE, probe)))
    except _Stop:
        pass
    except Exception as e:      # noqa: BLE001
        out.append(("C05:history:unexpected-exception", "%s: %s (outside an operator call)" % (type(e).__name__, e)))
    return out, flags


def history_case(kx, nx, kp, op, steps, triple, dim):
    """Concrete operands: P = 0.6 (x1, x1.75 per element), X elements at SI ratios RK[6], RK[7] to P."""
    sx, sp_, z = triple
    dim = tuple(dim)
    if kp == "float":
        P = _n("float", 0.6)
        base = F(0.6) * _scale(tuple(sx), dim)
    else:
        npart = 1 if kp == "uv" else (nx if kx == "ua" else 2)
        P = _q("uv" if kp == "uv" else "ua", [0.6 * RM[j] for j in range(npart)], sp_, dim)
        base = F(0.6) * _scale(tuple(sp_), dim)
    xv = [si.to_float(base * F(RK[6 + i]) / _scale(tuple(sx), dim)) for i in range(nx)]
    X = _q("uv" if kx == "uv" else "ua", xv, sx, dim)
    return {"sub": "history", "hist": {"X": X, "P": P, "Z": list(z), "op": op, "steps": list(steps)}}


# ---- operand construction --------------------------------------------------------------------------

MAGS_L = [41.0, -0.125, 3.7e-8, 2.9e8]
MAGS_R = [0.6, -19.0, 7.3e-8, 5.1e8]
INTS_L = [3, -7, 1000, 123456789]
INTS_R = [2, -5, 4096, 987654321]
LM = [1.0, 3.0, 5.0]          # element multipliers of an array on the anchor side
RM = [1.0, 1.75, 2.5]         # element multipliers of the ratio / of an independent right array
RATIOS = {"add": [0.37, -2.6, 1.0, 1234.5], "sub": [0.37, -2.6, 1.0, 1234.5],
          "mod": [0.37, -2.6, 7.25, 1234.5]}
CMP_RATIOS = [1.000001, 0.999999, 1.0, -7.25]
for _o in arith.COMPARE:
    RATIOS[_o] = CMP_RATIOS
NLEN = {"uv": 1, "ua": 2, "ua3": 3, "ua1": 1, "int": 1, "float": 1}


def _q(kind, vals, sys3, dim):
    k = "uv" if kind == "uv" else "ua"
    return {"k": k, "v": float(vals[0]) if k == "uv" else [float(v) for v in vals],
            "sys": list(sys3), "dim": list(dim)}


def _n(kind, v):
    return {"k": kind, "v": int(v) if kind == "int" else float(v)}


def ratio_pair(kL, kR, sysL, sysR, dim, ai, rho):
    """Operands L, R of the same dimension with exact SI ratio L_i / R_i ~ rho * RM[i]: both operands matter
    in the result whatever their stored units.  One side is the anchor (an int if there is one, else L)."""
    nL, nR = NLEN[kL], NLEN[kR]
    dim = tuple(dim)
    if kL in NK and kR in NK:
        raise ValueError("no quantity")
    if kL not in NK and kR not in NK:
        m = MAGS_L[ai]
        vL = [m * LM[i] for i in range(nL)]
        f = _scale(tuple(sysL), dim) / _scale(tuple(sysR), dim)
        vR = [si.to_float(F(vL[j] if nL > 1 and j < nL else vL[0]) * f / F(rho * RM[j])) for j in range(nR)]
        return _q(kL, vL, sysL, dim), _q(kR, vR, sysR, dim)
    if kR in NK:                      # L quantity, R number (in L's stored units)
        if kR == "int":
            n = INTS_R[ai]
            return _q(kL, [n * rho * LM[i] for i in range(nL)], sysL, dim), _n("int", n)
        m = MAGS_L[ai]
        return _q(kL, [m * LM[i] for i in range(nL)], sysL, dim), _n("float", m / rho)
    # L number, R quantity
    base = INTS_L[ai] if kL == "int" else MAGS_L[ai]
    return _n(kL, base), _q(kR, [base / (rho * RM[j]) for j in range(nR)], sysR, dim)


def indep_pair(kL, kR, sysL, sysR, dimL, dimR, ai, bi):
    """Independent magnitudes (for * and /, where every factor matters)."""
    def one(kind, mags, ints, mult, i, sys3, dim):
        if kind == "int":
            return _n("int", ints[i])
        if kind == "float":
            return _n("float", mags[i])
        return _q(kind, [mags[i] * mult[j] for j in range(NLEN[kind])], sys3, dim)
    return (one(kL, MAGS_L, INTS_L, LM, ai, sysL, dimL), one(kR, MAGS_R, INTS_R, RM, bi, sysR, dimR))


def binary_case(sub, op, kL, kR, sysL, sysR, dimL, dimR, ai, bi):
    """bi: index of the ratio (add sub mod, comparisons) or of the right magnitude (mul div)."""
    if op in ("mul", "div"):
        L, R = indep_pair(kL, kR, sysL, sysR, dimL, dimR, ai, bi)
    else:
        L, R = ratio_pair(kL, kR, sysL, sysR, dimL, ai, RATIOS[op][bi])
    return {"sub": sub, "expr": {"op": op, "args": [L, R]}}


# ---- the sub-spaces --------------------------------------------------------------------------------

class Block:
    """A complete Cartesian product of ordered axes; case i is built from its mixed-radix digits
    (last axis fastest), so any index range can be produced without enumerating its predecessors."""

    def __init__(self, axes, build):
        self.axes = [list(a) for a in axes]
        self.build = build
        self.size = 1
        for a in self.axes:
            self.size *= len(a)

    def at(self, i):
        vals = []
        for a in reversed(self.axes):
            i, r = divmod(i, len(a))
            vals.append(a[r])
        return self.build(*reversed(vals))


class Space:
    def __init__(self, name, blocks):
        self.name = name
        self.blocks = blocks
        self.size = sum(b.size for b in blocks)

    def at(self, i):
        for b in self.blocks:
            if i < b.size:
                return b.at(i)
            i -= b.size
        raise IndexError(i)


QQ = [("uv", "uv"), ("uv", "ua"), ("ua", "uv"), ("ua", "ua")]
NUMPAIRS = [(q, n) for q in QK for n in NK] + [(n, q) for q in QK for n in NK]          # 8
NUMCMP = [("uv", n) for n in NK] + [(n, "uv") for n in NK]                             # 4
ARITH5 = list(arith.ARITH)
CMP6 = ["eq", "ne", "lt", "le", "gt", "ge"]
OPK_QQ = [(o, a, b) for o in ARITH5 for a, b in QQ] + [(o, "uv", "uv") for o in CMP6]          # 26
OPK_NUM = [(o, a, b) for o in ARITH5 for a, b in NUMPAIRS] + [(o, a, b) for o in CMP6 for a, b in NUMCMP]  # 64
OPK_MISMATCH = [(o, a, b) for o in ("add", "sub", "mod") for a, b in QQ] + [(o, "uv", "uv") for o in CMP6]  # 18
POWS = [(-2, 1), (-1, 1), (0, 1), (1, 2), (1, 3), (1, 1), (2, 1), (3, 1)]
GEN_A, GEN_B = (1, -2, 3), (2, 1, -1)
D3 = [(0, 0, 1), (1, -1, 0), (-1, 1, 1)]


def systems12():
    d = si.DEFAULT
    return [d, ("km", d[1], d[2]), (d[0], "h", d[2]), (d[0], d[1], "mol"), (d[0], d[1], "fmol")] + list(si.MIXED)


def _spaces(tier):
    thorough = tier == "thorough"
    S36, ALL, S12 = si.systems36(), si.ALL_SYSTEMS, systems12()
    S4 = [si.DEFAULT, si.MIXED[0], si.MIXED[2], si.MIXED[3]]
    CUBE = si.cube(-1, 1)
    SB = S36 if thorough else S12
    sp = []

    # (a) unit-system pairs
    def b_pair(a, b, op):
        if op == "add":
            return binary_case("pairs", "add", "uv", "uv", a, b, GEN_A, GEN_A, 0, 1)
        return binary_case("pairs", "mul", "uv", "uv", a, b, GEN_A, GEN_B, 0, 0)
    if thorough:
        sp.append(Space("pairs: all 1100x1100 ordered unit-system pairs x {+, *} (scalar quantities; + on dimension "
                        "(1,-2,3), * on (1,-2,3) x (2,1,-1))", [Block([ALL, ALL, ["add", "mul"]], b_pair)]))
    else:
        REST = [x for x in ALL if x not in S36]      # 1064
        sp.append(Space("pairs: 36x36 unit-system pairs + default<->each of the other 1064 systems, x {+, *} "
                        "(scalar quantities; + on dimension (1,-2,3), * on (1,-2,3) x (2,1,-1))",
                        [Block([S36, S36, ["add", "mul"]], b_pair),
                         Block([[si.DEFAULT], REST, ["add", "mul"]], b_pair),
                         Block([REST, [si.DEFAULT], ["add", "mul"]], b_pair)]))

    # (b1) systems x cube
    def b_cube(a, b, dim, opk):
        op, kL, kR = opk
        return binary_case("syscube", op, kL, kR, a, b, dim, dim, 0, 0)
    sp.append(Space("syscube: %dx%d systems x dimension cube {-1,0,1}^3 (same dimension both operands) x "
                    "{+ - * / %% on the 4 quantity-quantity kind pairings, 6 comparisons on scalar pairs}"
                    % (len(SB), len(SB)), [Block([SB, SB, CUBE, OPK_QQ], b_cube)]))

    # (b2) dimension pairs for * /
    SD = S12 if thorough else S4

    def b_dims(a, b, d1, d2, op, kk):
        return binary_case("dimpairs", op, kk[0], kk[1], a, b, d1, d2, 1, 0)
    sp.append(Space("dimpairs: all 27x27 dimension pairs of the cube x {* /} x 4 quantity-quantity kind pairings x "
                    "%dx%d systems" % (len(SD), len(SD)), [Block([SD, SD, CUBE, CUBE, ["mul", "div"], QQ], b_dims)]))

    # (b3) magnitudes
    def b_mags(a, b, dim, opk, ai, bi):
        op, kL, kR = opk
        return binary_case("magnitudes", op, kL, kR, a, b, dim, dim, ai, bi)
    sp.append(Space("magnitudes: 4x4 magnitudes (4 anchors over 16 decades x 4 ratios / 4 partner magnitudes) x "
                    "%dx%d systems x 3 dimensions x the 26 operator/kind pairings of syscube"
                    % (len(SB), len(SB)), [Block([SB, SB, D3, OPK_QQ, range(4), range(4)], b_mags)]))

    # (b4) plain numbers on either side (no conversion between two systems is involved: few systems in quick)
    SN = S36 if thorough else S4
    def b_num(a, dim, opk, ai, bi):
        op, kL, kR = opk
        return binary_case("numbers", op, kL, kR, a, a, dim, dim, ai, bi)
    sp.append(Space("numbers: int/float on either side: %d systems x cube x {+ - * / %% x {scalar,array} x "
                    "{int,float} x 2 orders, 6 comparisons x {int,float} x 2 orders} x 4x4 magnitudes"
                    % len(SN), [Block([SN, CUBE, OPK_NUM, range(4), range(4)], b_num)]))

    # unary
    def b_un(a, dim, op, kind, ai):
        return {"sub": "unary", "expr": {"op": op, "args": [_q(kind, [MAGS_L[ai] * LM[j] * (-1) ** j
                                                                    for j in range(NLEN[kind])], a, dim)]}}
    sp.append(Space("unary: 36 systems x cube x {-x, abs} x {scalar,array} x 4 magnitudes (array elements of "
                    "both signs)", [Block([S36, CUBE, ["neg", "abs"], QK, range(4)], b_un)]))

    # (c) power
    SP = S36 if thorough else S4
    PMAG = [41.0, 3.7e-8, 2.9e8]

    def b_pow(a, dim, p, mi):
        if mi < 3:
            v = PMAG[mi]
        else:
            v = -0.125 if p[1] == 1 else 0.015625       # a negative base only for integral exponents
        return {"sub": "power", "expr": {"op": "pow", "args": [_q("uv", [v], a, dim)], "p": list(p)}}
    sp.append(Space("power: scalar ** p, p in {-2,-1,0,1/2,1/3,1,2,3} x every dimension of {-3..3}^3 x %d systems "
                    "x 4 magnitudes (raise exactly when a resulting exponent is not integral)" % len(SP),
                    [Block([SP, si.cube(-3, 3), POWS, range(4)], b_pow)]))

    # (c') integral exponents handed over as float / numpy scalars, bases of both signs
    PCARR = ["float", "np.int64", "np.int32", "np.float64", "np.float32"]
    PINT = [-2, -1, 0, 1, 2, 3, 4]
    PBASE = [-0.125, -41.0, -3.7e-8, 41.0]

    def b_powc(a, dim, e, carr, v):
        node = {"op": "pow", "args": [_q("uv", [v], a, dim)], "p": [e, 1]}
        if carr == "float":
            node["pfloat"] = True
        else:
            node["pscalar"] = carr
        return {"sub": "power", "expr": node}
    sp.append(Space("power-carriers: scalar ** integral exponent {-2..4} handed over as python float / np.int64 / "
                    "np.int32 / np.float64 (judged) / np.float32 (observed only) x bases {-0.125, -41, -3.7e-8, 41} x "
                    "cube {-1,0,1}^3 x 4 systems (a negative base with an integral exponent is real whatever the "
                    "exponent's type)", [Block([S4, CUBE, PINT, PCARR, PBASE], b_powc)]))

    # (c) mismatched dimensions
    SYSP = [(si.DEFAULT, si.DEFAULT), (si.MIXED[0], si.MIXED[3])]
    PAIRS = [(d1, d2) for d1 in CUBE for d2 in CUBE if d1 != d2]

    def b_mis(dd, opk, ss, var):
        op, kL, kR = opk
        L, R = indep_pair(kL, kR, ss[0], ss[1], dd[0], dd[1], 0, 0)
        if var:
            # the tempting coincidences: the two stored numbers are equal (var 1) / the two SI numbers are equal
            # (var 2; if that is the same case as var 1, equal and opposite stored numbers instead)
            lv = [L["v"]] if kL == "uv" else L["v"]
            same = [lv[j] if len(lv) > 1 else lv[0] for j in range(NLEN[kR])]
            if var == 1:
                rv = same
            else:
                f = _scale(tuple(ss[0]), tuple(dd[0])) / _scale(tuple(ss[1]), tuple(dd[1]))
                rv = [si.to_float(F(x) * f) for x in same]
                if rv == same:
                    rv = [-x for x in same]
            R = _q(kR, rv, ss[1], dd[1])
        return {"sub": "mismatch", "expr": {"op": op, "args": [L, R]}}
    sp.append(Space("mismatch: all 702 ordered pairs of different dimensions of the cube x {+ - % on 4 kind "
                    "pairings, < <= > >= (must raise), == != (False/True)} x {same, different} systems x "
                    "{unrelated magnitudes, equal stored numbers, equal SI numbers}",
                    [Block([PAIRS, OPK_MISMATCH, SYSP, [0, 1, 2]], b_mis)]))

    LENPAIRS = [("ua", "ua3"), ("ua3", "ua"), ("ua1", "ua"), ("ua", "ua1"), ("ua1", "ua3"), ("ua3", "ua1")]

    def b_len(dim, op, order, ss):
        kL, kR = LENPAIRS[order]
        L, R = indep_pair(kL, kR, ss[0], ss[1], dim, dim, 0, 0)
        return {"sub": "length", "expr": {"op": op, "args": [L, R]}}
    sp.append(Space("length: arrays of different lengths (2/3, 1/2, 1/3; a length-1 array is still an array), both orders x "
                    "{+ - * / %} x cube x {same, different} systems (must raise)", [Block([CUBE, ARITH5, list(range(6)), SYSP], b_len)]))

    # (d) depth-2 trees
    T3 = [si.DEFAULT, si.MIXED[0], si.MIXED[3]] if thorough else [si.DEFAULT, si.MIXED[3]]
    IDX = list(range(len(T3)))
    K3 = ("uv", "ua", "float")
    KAB = [(a, b) for a in K3 for b in K3 if not (a == "float" and b == "float")]      # 8
    KAB_S = [("uv", "uv"), ("uv", "float"), ("float", "uv")]

    def b_tree(orient, op1, op2, kab, kc, ia, ib, ic, di):
        return tree_case(T3, orient, op1, op2, kab[0], kab[1], kc, ia, ib, ic, di)
    blocks = [Block([["L", "R"], ARITH5, ARITH5, KAB, K3, IDX, IDX, IDX, [0, 1]], b_tree),
              Block([["L", "R"], ARITH5, CMP6, KAB_S, ("uv", "float"), IDX, IDX, IDX, [0, 1]], b_tree)]

    def b_tree_un(op1, op2, kab, ia, ib, di):
        inner = _inner(T3, op1, kab[0], kab[1], ia, ib, di)[0]
        return {"sub": "trees", "expr": {"op": op2, "args": [inner]}}
    blocks.append(Block([ARITH5, ["neg", "abs"], KAB, IDX, IDX, [0, 1]], b_tree_un))

    def b_tree_pow(op1, p, kab, ia, ib):
        inner = _inner(T3, op1, kab[0], kab[1], ia, ib, 2)[0]
        return {"sub": "trees", "expr": {"op": "pow", "args": [inner], "p": list(p)}}
    blocks.append(Block([["mul", "div", "add"], [(2, 1), (-1, 1), (1, 2)], KAB_S, IDX, IDX], b_tree_pow))
    sp.append(Space("trees: depth 2, (a.b).c and c.(a.b): {+ - * / %%}^2 x kinds {scalar,array,float}^3 (not two "
                    "numbers inside) ; {+ - * / %%} then a comparison on scalars ; then unary -/abs ; then ** "
                    "{2,-1,1/2} ; operands in %d^3 unit systems x 2 dimension assignments" % len(T3), blocks))
    # (f) carriers: the same numbers handed over in different containers / dtypes
    f32 = lambda x: float(np.float32(x))      # noqa: E731
    NUMSETS = {"small": [200, 100, 3], "signed": [100, -128, 3], "mid": [60000, 7, -5],
               "big": [3000000000, 5, -2], "single": [f32(0.1), f32(2.5e-3), 1.5]}
    PARTNER_INT = {"small": 2, "signed": 2, "mid": 60000, "big": 4000000000, "single": 3}
    COMBOS = [("small", c) for c in ("list", "tuple", "pyints", "f64", "f32", "i64", "i32", "u8")] + \
             [("signed", c) for c in ("list", "pyints", "f64", "i32", "i8")] + \
             [("mid", c) for c in ("list", "pyints", "f64", "f32", "i64", "i32")] + \
             [("big", c) for c in ("list", "pyints", "f64", "i64")] + \
             [("single", c) for c in ("list", "tuple", "f64", "f32")]
    CDIMS = [(0, 1, 0), (1, -1, 1)]
    CSYS1 = [si.MIXED[3], si.DEFAULT]
    CSYS2 = [(si.MIXED[3], si.MIXED[3]), (si.DEFAULT, si.MIXED[0])]

    def cleaf(combo, via, sys3, dim):
        return {"k": "ua", "v": list(NUMSETS[combo[0]]), "sys": list(sys3), "dim": list(dim),
                "carrier": combo[1], "via": via}

    def b_car_num(combo, via, op, nk, order, sys3, dim):
        n = _n("int", PARTNER_INT[combo[0]]) if nk == "int" else _n("float", 2.5)
        a = cleaf(combo, via, sys3, dim)
        return {"sub": "carriers", "expr": {"op": op, "args": [a, n] if order == 0 else [n, a]}}

    def b_car_un(combo, via, op, sys3, dim):
        return {"sub": "carriers", "expr": {"op": op, "args": [cleaf(combo, via, sys3, dim)]}}

    def b_car_q(combo, via, op, pk, order, ss, dim):
        a = cleaf(combo, via, ss[0], dim)
        if pk == "uv":
            q = _q("uv", [float(PARTNER_INT[combo[0]])], ss[1], dim)
        elif pk == "ua":
            q = _q("ua", [float(v) for v in NUMSETS[combo[0]]], ss[1], dim)
        else:
            q = cleaf(combo, "ctor", ss[1], dim)
            q["v"] = q["v"][::-1]       # (so that a op q and q op a are different cases)
        return {"sub": "carriers", "expr": {"op": op, "args": [a, q] if order == 0 else [q, a]}}
    sp.append(Space("carriers: an array quantity built from the same numbers as list / tuple / list of ints / float64 "
                    "/ float32 / int64 / int32 / uint8 / int8 ndarray (%d number-set x carrier combinations, numbers "
                    "that wrap in fixed-width arithmetic), through the constructor and the .value setter, x "
                    "{+ - * / %% with int and float on either side ; -x, abs ; + - * / %% with a scalar quantity, a "
                    "list-built array, an array of the same carrier, both orders, same / different systems} x 2 "
                    "dimensions" % len(COMBOS),
                    [Block([COMBOS, ["ctor", "setter"], ARITH5, ["int", "float"], [0, 1], CSYS1, CDIMS], b_car_num),
                     Block([COMBOS, ["ctor", "setter"], ["neg", "abs"], CSYS1, CDIMS], b_car_un),
                     Block([COMBOS, ["ctor", "setter"], ARITH5, ["uv", "ua", "same"], [0, 1], CSYS2, CDIMS],
                           b_car_q)]))

    # (g) scalar carriers: the plain-number operand as python int/float and as numpy scalars
    SCOMBOS = [("int", None, 3), ("int", "np.int64", 3), ("int", "np.int32", 3), ("int", "np.uint8", 3),
               ("float", None, 3.0), ("float", None, 2.5), ("float", "np.float64", 3.0), ("float", "np.float64", 2.5),
               ("float", "np.float32", 3.0), ("float", "np.float32", 2.5)]
    SQV = [3.0, 7.0, 2.0]
    SDIMS = [(0, 0, 0), (1, -1, 0)]

    def snum(c):
        lf = _n(c[0], c[2])
        if c[1]:
            lf["scalar"] = c[1]
        return lf

    def b_sc(c, qv, dim, sys3, opk, order):
        op, qk = opk
        q = _q(qk, [qv, qv + 4.5], sys3, dim) if qk == "ua" else _q("uv", [qv], sys3, dim)
        n = snum(c)
        return {"sub": "scalars", "expr": {"op": op, "args": [q, n] if order == 0 else [n, q]}}

    def b_sc_pow(c, qv, dim, sys3):
        fr = F(c[2])
        node = {"op": "pow", "args": [_q("uv", [qv], sys3, dim)], "p": [fr.numerator, fr.denominator]}
        if c[1]:
            node["pscalar"] = c[1]
        elif c[0] == "float":
            node["pfloat"] = True       # the exponent is handed over as a python float even when integral
        return {"sub": "scalars", "expr": node}
    SOPK = [(o, k) for o in ARITH5 for k in QK] + [(o, "uv") for o in CMP6]
    sp.append(Space("scalars: the plain-number operand as python int / float and as np.int64 / np.int32 / np.float64 "
                    "(JUDGED) and as np.uint8 / np.float32 (OBSERVED ONLY: numpy's own promotion rules apply; only "
                    "the bool-ness of comparisons, and their outcome for integral numbers, is judged) "
                    "(10 type x value combinations, values 3 and 2.5) x quantity values "
                    "{3 (tie), 7, 2} x dimension {zero, (1,-1,0)} x 2 systems x {+ - * / %% on scalar and array "
                    "quantities, 6 comparisons on scalar quantities} x both orders ; scalar quantity ** that number",
                    [Block([SCOMBOS, SQV, SDIMS, CSYS1, SOPK, [0, 1]], b_sc),
                     Block([SCOMBOS, SQV, SDIMS, CSYS1], b_sc_pow)]))

    # (e) histories on the same operand objects
    HA, HB, HC = ("mm", "ds", "mmol"), ("cm", "s", "cmol"), ("dm", "cs", "dmol")
    TRIPLES = [(HA, HB, HC), (si.DEFAULT, si.MIXED[0], si.MIXED[3])]
    HDIMS = [(1, -1, 1)]
    if thorough:
        TRIPLES += [(HB, si.DEFAULT, HA), (si.MIXED[3], HA, si.DEFAULT), (HA, HA, HB),
                    (si.MIXED[0], si.MIXED[0], si.DEFAULT)]
        HDIMS += [(0, 1, 0)]

    def seqs(alpha):
        return ([(l,) for l in OPSTEPS] + [(a, l) for a in alpha for l in OPSTEPS]
                + [(a, b, l) for a in alpha for b in alpha for l in OPSTEPS])
    SEQ_UA, SEQ_UV = seqs(UA_STEPS), seqs(UV_STEPS)
    K3P = ["uv", "ua", "float"]
    sp.append(Space("history: the SAME operand objects through <= 3 steps ending in an operator call; steps: X op P, "
                    "P op X, -X, X*3 and 3/X with a dimensionless quantity built on the spot, set_at, in-place "
                    "write into .value, .value setter, set_value (one more element), .units relabel, "
                    "convert(UnitsSystem), convert({'time': t}); subject: array of length 2 / 1 x partner "
                    "{scalar, array, float} x {+ - * / %%} (%d step sequences), scalar x the same (%d sequences), "
                    "scalar x {scalar, float} x 6 comparisons; x %d system triples x %d dimension(s)"
                    % (len(SEQ_UA), len(SEQ_UV), len(TRIPLES), len(HDIMS)),
                    [Block([[2, 1], K3P, ARITH5, SEQ_UA, TRIPLES, HDIMS],
                           lambda nx, kp, op, st, tr, dm: history_case("ua", nx, kp, op, st, tr, dm)),
                     Block([K3P, ARITH5, SEQ_UV, TRIPLES, HDIMS],
                           lambda kp, op, st, tr, dm: history_case("uv", 1, kp, op, st, tr, dm)),
                     Block([["uv", "float"], CMP6, SEQ_UV, TRIPLES, HDIMS],
                           lambda kp, op, st, tr, dm: history_case("uv", 1, kp, op, st, tr, dm))]))
    return sp


# trees ------------------------------------------------------------------------------------------------
DA = [(1, 0, 0), (1, -1, 1), (1, -1, 0)]
DB = [(0, 1, 0), (-1, 0, 1), (1, -1, 0)]
DC = [(0, 0, 1), (1, 1, 0)]
NUMVAR = [1.0, 2.5, 0.3]      # a plain-number operand uses its (otherwise unused) system index to vary its value


def _ref_leaf(leaf):
    if leaf["k"] in NK:
        return arith.Num(F(leaf["v"]))
    sc = _scale(tuple(leaf["sys"]), tuple(leaf["dim"]))
    vals = [leaf["v"]] if leaf["k"] == "uv" else leaf["v"]
    return arith.Qty([F(v) * sc for v in vals], leaf["dim"], leaf["k"] == "ua", unit=sc)


def _inner(T3, op1, ka, kb, ia, ib, di):
    """The inner node a.b of a tree and its exact value (None if it has none)."""
    sa, sb = T3[ia], T3[ib]
    da = DA[di]
    db = da if op1 in ("add", "sub", "mod") else DB[di]
    if op1 in ("mul", "div"):
        L, R = indep_pair(ka, kb, sa, sb, da, db, 0, 0)
    else:
        L, R = ratio_pair(ka, kb, sa, sb, da, 0, {"add": 0.37, "sub": 0.37, "mod": 7.25}[op1])
    if ka == "float":
        L = _n("float", L["v"] * NUMVAR[ia])
    if kb == "float":
        R = _n("float", R["v"] * NUMVAR[ib])
    node = {"op": op1, "args": [L, R]}
    ex = arith.arith(op1, _ref_leaf(L), _ref_leaf(R))
    # unit a later plain number is *assumed* to take (the oracle uses the observed one): the left-most
    # quantity operand's stored units
    lead = L if ka != "float" else R
    return node, (ex if isinstance(ex, arith.Qty) else None), lead


def tree_case(T3, orient, op1, op2, ka, kb, kc, ia, ib, ic, di):
    inner, ex, lead = _inner(T3, op1, ka, kb, ia, ib, di)
    sc_ = T3[ic]
    nC = NLEN[kc]
    if op2 in ("mul", "div") or ex is None:
        dimc = DC[di]
        if kc == "float":
            c = _n("float", 19.0 * NUMVAR[ic])
        else:
            c = _q(kc, [19.0 * RM[j] for j in range(nC)], sc_, dimc)
    else:
        rho = {"add": -2.6, "sub": -2.6, "mod": 7.25}.get(op2, 1.000001)
        dimc = ex.dim
        vals = []
        for j in range(nC):
            x = ex.vals[j] if len(ex.vals) > 1 else ex.vals[0]
            r = F(rho * RM[j])
            vals.append(x / r if orient == "L" else x * r)       # (left operand) / (right operand) = rho*RM[j]
        if kc == "float":
            unit = _scale(tuple(lead["sys"]), tuple(dimc))
            c = _n("float", si.to_float(vals[0] / unit) * NUMVAR[ic])
        else:
            unit = _scale(tuple(sc_), tuple(dimc))
            c = _q(kc, [si.to_float(v / unit) for v in vals], sc_, dimc)
    args = [inner, c] if orient == "L" else [c, inner]
    return {"sub": "trees", "expr": {"op": op2, "args": args}}


# ---- enumeration -------------------------------------------------------------------------------------

_SPACES = None
COUNTED = ("must_raise", "raised_as_specified", "decided_true", "decided_false", "carrier_rejected",
           "result_shares_an_object_with_an_operand")


def _work(job):
    si_, lo, hi = job
    space = _SPACES[si_]
    acc = core.Acc()
    for i in range(lo, hi):
        case = space.at(i)
        viol, flags = _evaluate(case)
        nops = flags.count("op")
        if "hist" in case:
            h = case["hist"]
            nmod = flags.count("mod")
            nt = len(h["steps"]) >= 2 and nops > 0
            acc.add(states=1, transitions=nops + nmod, traces=1, evaluations=nops, nontrivial=1 if nt else 0)
            acc.count("history_operator_calls_on_objects_with_a_past_or_their_fresh_twins", nops)
            acc.count("history_modifications_and_conversions", nmod)
            if "must_raise" in flags:
                acc.count("history_cases_reaching_a_must_raise_call")
            for f in flags:
                if f.startswith("skipped:"):
                    acc.count("near_tie_or_undefined_skipped:" + f[8:])
            for key, what in viol:
                acc.violation(key, what, case)
            if i < 2:
                acc.sample(case)
            continue
        leaves = _leaves(case["expr"])
        systems = []
        for lf in leaves:
            if lf["k"] in QK and lf["sys"] not in systems:
                systems.append(lf["sys"])
        has_num = any(lf["k"] in NK for lf in leaves)
        must_raise = "must_raise" in flags
        nt = len(systems) > 1 or has_num or must_raise or case["expr"]["op"] == "pow"
        acc.add(states=1, transitions=nops, traces=1, evaluations=nops, nontrivial=1 if nt else 0)
        if len(systems) > 1:
            acc.count("cases_with_operands_in_different_unit_systems")
        if has_num:
            acc.count("cases_with_a_plain_number_operand")
        for f in flags:
            if f in COUNTED:
                acc.count(f)
            elif f.startswith("skipped:"):
                acc.count("near_tie_or_undefined_skipped:" + f[8:])
            elif f.startswith("scalar_carrier_rejected:") or f.startswith("scalar_carrier_observed:"):
                acc.count(f)
        for key, what in viol:
            acc.violation(key, what, case)
        if i < 2:
            acc.sample(case)
    return acc.pack()


def run(ctx):
    global _SPACES
    arith.selftest()
    _SPACES = _spaces(ctx.tier)
    jobs = []
    for i, space in enumerate(_SPACES):
        for lo, hi in pool.chunks(space.size, 4000):
            jobs.append((i, lo, hi))
    res = pool.pmap(_work, jobs, timeout=900)
    per = {}
    for job, r in zip(jobs, res):
        if isinstance(r, pool.Crash):
            ctx.violation("C05:checker:worker-%s" % r.kind, r.detail, {"job": job})
            continue
        core.merge(ctx, r)
        per[job[0]] = per.get(job[0], 0) + r["n"][0]
    for i, space in enumerate(_SPACES):
        ctx.subspace(space.name, space.size, per.get(i, 0), exhaustive=(per.get(i, 0) == space.size))
    ctx.rule("every case of each listed sub-space (a complete Cartesian product, or a union of such) is built from "
             "its index and evaluated on the real operators; cases are distinct by construction; transitions = "
             "operator calls executed; a case is non-trivial when its quantity operands are stored in at least "
             "two different unit systems, or a plain number has to be given units, or the operation must raise, "
             "or it is a power; a history case is non-trivial when at least one step precedes its last operator call")
    ctx.note("scalar_carriers_observed_only",
             "np.uint8 and np.float32 plain-number operands are enumerated but not judged for + - * / % **: with them "
             "numpy carries out part of the arithmetic under its own promotion rules (NEP 50: python float next to "
             "np.float32 computes in float32; unary minus of an unsigned scalar wraps), e.g. UnitValue(5,'mm') - "
             "np.uint8(3) = 258 mm, UnitValue(7,'mm') / np.float32(3) = 2.33333349 mm; counters "
             "scalar_carrier_observed:<op>:<type>:<exact|inexact|rejected>. Comparisons must return a real bool "
             "whatever the type; their outcome is judged for integral numbers")
    ctx.assume("'plain numbers' = python int / float and the numpy scalar types that compute in double precision "
               "without wrap-around in these expressions (np.int64, np.int32, np.float64); np.uint8 / np.float32 are "
               "observed only")
    ctx.assume("exact SI scales of mc/ref/si.py; results compared in exact rational arithmetic with relative "
               "tolerance 1e-12 of the operand scale (sum of |terms| for sums); comparisons and the range of %% are "
               "not judged inside a relative 1e-9 band around their discontinuity (counted as skipped); %% is "
               "judged as a congruence; a plain number after an intermediate result takes the units that "
               "intermediate result is observed to be stored in")


def replay(case):
    return check_case(case)
