"""C10 — simulations terminate, and the engine lifecycle is crash-free and isolated.

E2 (mc/lifecycle.py): every lifecycle-respecting history over {setup, setup', iterate, iterate_n(2), sample,
finalize} up to a depth bound, over one and two engine objects of every kind, executed on the real objects
in supervised workers (hang / crash attribution), observers after every operation compared with the
canonical history of each object's abstract state run alone in a pristine process.  Plus a termination
catalogue (scripts with sub-molecule and fractional totals) and the fixed-step completion count.
"""
import itertools
import json
import math

from mc import core, pool, models, eng, lifecycle as lc, tlaconf

core.setup_paths()

VARIANT = "plain"
PID = "C10"
KINDS = [(e, g) for e in ("euler", "tauleap", "gillespie") for g in ("grid", "graph")]

_JOBS = None
_ZYG = {}
_TLA = {}          # operation string -> set of observation sequences the TLA+ model allows
TLA_K = 3


def _zyg():
    import os
    z = _ZYG.get(os.getpid())
    if z is None:
        _ZYG.clear()
        z = lc.Zygote("plain")
        _ZYG[os.getpid()] = z
    return z


# ---- termination catalogue --------------------------------------------------------------------------

def term_cases(tier, seed0):
    states1 = [[0.25, 0.25], [0.5, 0.0], [0.0, 0.75], [0.25, 0.25, 0.25], [1.5, 0.75], [0.5, 2.25, 0.5], [0.0, 0.0],
               [3.0, 0.0], [0.75, 0.0, 0.0]]
    seeds = list(range(1000 * seed0, 1000 * seed0 + (4 if tier == "quick" else 16)))
    for engine in ("tauleap", "gillespie", "euler"):
        for gtype in ("grid", "graph"):
            for st in states1:
                n = len(st)
                for isp in ("auto", "redist", "Poisson", "none"):
                    if engine == "euler" and isp != "auto":
                        continue
                    if engine != "euler" and isp == "none":
                        continue      # a real-valued state without processing is not a molecular state
                    for sd in (seeds if engine != "euler" else seeds[:1]):
                        space = ({"type": "grid", "w": n, "h": 1, "d": 1, "vol": 1.0} if gtype == "grid" else
                                 {"type": "graph", "nodes": [{"vol": 1.0 + i, "env": 0} for i in range(n)],
                                  "edges": [[i, i + 1, 1.0, 1.0] for i in range(n - 1)]})
                        spec = {"species": [{"label": "A", "D": 0.5}, {"label": "B", "D": 0.0}],
                                "reactions": [{"eq": [[["A", 1]], [["B", 1]]], "kf": 0.5, "kr": 0.0}], "envs": [""],
                                "space": space, "state": st + [0.5 * v for v in st]}
                        yield {"sub": "termination", "engine": engine,
                               "script": {"system": spec, "t_sample": [0, 0.5], "time_step": 0.25, "seed": sd, "isp": isp,
                                          "policy": "on_t_sample"}}


def extinction_cases(tier, seed0):
    """Gillespie/tau-leap runs that end because nothing can happen any more (total propensity 0), then empty batches."""
    seeds = list(range(1000 * seed0, 1000 * seed0 + (2 if tier == "quick" else 8)))
    for engine in ("gillespie", "tauleap"):
        for gtype in ("grid", "graph"):
            for st in ([2.0, 1.0], [0.0, 0.0], [1.0, 0.0, 2.0], [0.25, 0.25]):
                n = len(st)
                for sd in seeds:
                    space = ({"type": "grid", "w": n, "h": 1, "d": 1, "vol": 1.0} if gtype == "grid" else
                             {"type": "graph", "nodes": [{"vol": 1.0 + i, "env": 0} for i in range(n)],
                              "edges": [[i, i + 1, 1.0, 1.0] for i in range(n - 1)]})
                    spec = {"species": [{"label": "A", "D": 0.0}, {"label": "B", "D": 0.0}],
                            "reactions": [{"eq": [[["A", 1]], [["B", 1]]], "kf": 2.0, "kr": 0.0}], "envs": [""],
                            "space": space, "state": st + [0.0] * n}
                    yield {"sub": "extinction", "engine": engine,
                           "script": {"system": spec, "t_sample": [0], "time_step": 0.25, "seed": sd, "isp": "auto",
                                      "policy": "on_iteration", "t_max": 1e6 if engine == "gillespie" else 1.0}}
                    # every sampling policy, with the requested times used up long before the explicit t_max and with
                    # requests still pending when nothing can happen any more
                    for pol, ts, extra in (("on_t_sample", [0, 0.01], {}), ("on_t_sample", [0, 0.01, 500.0], {}),
                                           ("on_t_sample", [0], {}), ("on_interval", [0], {"interval": 0.5}),
                                           ("no_sampling", [0], {})):
                        sc = {"system": spec, "t_sample": ts, "time_step": 0.25, "seed": sd, "isp": "auto", "policy": pol,
                              "t_max": 1000.0 if engine == "gillespie" else 1.0}
                        sc.update(extra)
                        yield {"sub": "extinction", "engine": engine, "script": sc}


def step_cases():
    for engine in ("euler", "tauleap"):
        for gtype in ("grid", "graph"):
            for scale in (1.0, 2.0 ** -40, 1e-10, 1e6):          # the step count must not depend on the time scale
                for dt in (0.25, 0.1, 0.3):
                    for tmax in (0.0, 0.05, 0.25, 0.3, 0.5, 0.7, 1.0, 2.05):
                        sc = lc.script_spec((engine, gtype), "a")
                        sc["time_step"] = dt * scale
                        sc["t_max"] = tmax * scale
                        sc["policy"] = "no_sampling"
                        for r in sc["system"]["reactions"]:
                            r["kf"], r["kr"] = r["kf"] / scale, r["kr"] / scale
                        for sp_ in sc["system"]["species"]:
                            sp_["D"] = sp_["D"] / scale
                        yield {"sub": "steps", "engine": engine, "script": sc, "dt": dt * scale, "t_max": tmax * scale}
                        if scale == 1.0:
                            # the same step and end time written with their own units (other than the script's second)
                            sc2 = json.loads(json.dumps(sc))
                            sc2["time_step"] = "%r ms" % (dt * 1000.0)
                            sc2["t_max"] = "%r ms" % (tmax * 1000.0)
                            yield {"sub": "steps", "engine": engine, "script": sc2, "dt": dt, "t_max": tmax}


def reset_cases():
    """The end time left to its documented default (the last requested time) and the request list replaced on the script
    object after construction: the run ends at the last time of the list in force."""
    for engine in ("euler", "tauleap"):
        for gtype in ("grid", "graph"):
            for first, second in (([0, 0.5], [0, 0.25, 2.0]), ([0, 2.0], [0, 0.5]), ([0, 1.0], [0, 1.0, 1.75]), ([0.5], [0.25])):
                sc = lc.script_spec((engine, gtype), "a")
                sc["time_step"] = 0.25
                sc.pop("t_max", None)
                sc["policy"] = "on_t_sample"
                sc["t_sample"] = list(first)
                yield {"sub": "steps", "engine": engine, "script": sc, "dt": 0.25, "t_max": second[-1], "reset_t_sample": list(second)}


def check_factory(case):
    """Two calls of one engine factory of engine_collection give two engine OBJECTS whose own status does not follow
    the other one's set-up (the native library is redirected to the fresh build; the factory itself is the library's)."""
    out = []
    name = case["factory"]
    try:
        import ctypes
        from strengths import engine_collection as ec
        fac = getattr(ec, name, None)
        if fac is None or not hasattr(ec, "ctypes"):
            return [], 1
        lib = ctypes.CDLL(eng.so_path(VARIANT))
        shim = eng._CtypesShim(lib)
        real = ec.ctypes
        ec.ctypes = shim
        try:
            a = fac()
            b = fac()
        finally:
            ec.ctypes = real
        if a is b:
            out.append(("%s:factories:%s:same-object-returned-twice" % (PID, name), "%s() is %s(): two users of the factory share one engine object" % (name, name)))
            return out, 0
        kind = (case["kind"], "grid")
        a.setup(models.build_script(lc.script_spec(kind, "a")))
        n = 0
        while a.iterate() and n < 1000:
            n += 1
        done = a.is_complete()
        b.setup(models.build_script(lc.script_spec(kind, "c")))
        if done and not a.is_complete():
            out.append(("%s:factories:%s:status-of-first-object-follows-second-set-up" % (PID, name),
                        "first object complete; after the second object's setup() the first one reports is_complete() = False"))
        b.finalize()
    except Exception as ex:
        out.append(("%s:factories:unexpected-exception" % PID, "%s: %s" % (type(ex).__name__, ex)))
    return out, 0


def check_simple(case):
    """termination / step-count cases: S, iterate to completion (bounded), observers, F, F."""
    out = []
    if case["sub"] == "factories":
        return check_factory(case)[0]
    try:
        script = models.build_script(case["script"])
        if case.get("reset_t_sample"):
            script.t_sample = list(case["reset_t_sample"])
        e = eng.make_engine(case["engine"], VARIANT)
        e.setup(script)
        if e.is_complete():
            out.append(("%s:%s:is_complete-after-setup" % (PID, case["sub"]), "is_complete() True right after setup"))
        n = 0
        r = True
        while r and n < 5000:
            r = e.iterate()
            n += 1
        if r:
            out.append(("%s:%s:no-completion" % (PID, case["sub"]), "not complete after %d iterations" % n))
        if case["sub"] == "steps":
            exp = math.ceil(case["t_max"] / case["dt"] - 1e-9)
            if not (exp - 1 <= n <= exp + 1) and not (case["t_max"] == 0 and n == 1):
                out.append(("%s:steps:count" % PID, "dt=%g t_max=%g: completed after %d iterations, expected ceil(t_max/dt)=%d (+-1)"
                            % (case["dt"], case["t_max"], n, exp)))
        o1 = lc.observers(e)
        if not o1["twice_equal"]:
            out.append(("%s:%s:get_output-not-repeatable" % (PID, case["sub"]), ""))
        if not o1["complete"] and not r:
            out.append(("%s:%s:is_complete-false-after-completion" % (PID, case["sub"]), ""))
        r2 = e.iterate()
        o2 = lc.observers(e)
        if r2 is not False or o2["t"] != o1["t"] or o2["data"] != o1["data"]:
            out.append(("%s:%s:iteration-after-completion-changes-output" % (PID, case["sub"]), ""))
        for call, rz in (("iterate_n(0)", e.iterate_n(0)), ("iterate_n(2)", e.iterate_n(2)), ("run(0)", e.run(0))):
            if rz is not False or not e.is_complete():
                out.append(("%s:%s:completion-not-sticky:%s" % (PID, case["sub"], call.split("(")[0]),
                            "%s on the completed simulation returned %r, is_complete() = %r" % (call, rz, e.is_complete())))
                break
        e.finalize()
        e.finalize()
    except Exception as ex:
        out.append(("%s:%s:unexpected-exception" % (PID, case["sub"]), "%s: %s" % (type(ex).__name__, ex)))
    return out


# ---- jobs -------------------------------------------------------------------------------------------

def check_case(case):
    """Replay entry: one history or one simple case."""
    if case.get("sub") in ("termination", "steps", "extinction", "factories"):
        return check_simple(case)
    if case.get("sub") == "tla":
        nodes, edges, init, _ = tlaconf.run_tlc(TLA_K, len(case["ops"]), "replay")
        allowed, _ = tlaconf.paths_by_ops(nodes, edges, init)
        return [("%s:%s" % (PID, k), w) for k, w in tlaconf.replay(tuple(case["kind"]), TLA_K, case["ops"], allowed[case["ops"]], VARIANT)]
    kinds = [tuple(k) for k in case["kinds"]]
    hist = [(h[0], int(h[1])) for h in case["history"].split(",")]
    z = lc.Zygote("plain")
    try:
        viol, nops, nobs = lc.check_history(kinds, hist, z, variant=VARIANT, mixed=bool(case.get("mixed")))
    finally:
        z.close()
    return [(PID + k[3:], w) for k, w, p in viol]


def _work(job):
    lo, hi = job
    acc = core.Acc()
    for j in _JOBS[lo:hi]:
        if j[0] == "simple":
            case = j[1]
            res = check_simple(case)
            acc.add(states=1, transitions=4, traces=1, evaluations=1, nontrivial=1)
            acc.count("cases:" + case["sub"])
            for key, what in res:
                acc.violation(key, what, case)
            continue
        if j[0] == "tla":
            _, kind, ops = j
            lc.announce("tla %s %s" % (kind, ops))
            res = tlaconf.replay(kind, TLA_K, ops, _TLA[ops], VARIANT)
            acc.add(transitions=len(ops), traces=len(_TLA[ops]), evaluations=len(ops))
            acc.count("tla_operation_sequences_replayed")
            acc.count("tla_model_paths_validated", len(_TLA[ops]))
            for key, what in res:
                acc.violation("%s:%s" % (PID, key), what, {"sub": "tla", "kind": list(kind), "ops": ops})
            continue
        _, sub, kinds, hist = j
        viol, nops, nobs = lc.check_history(kinds, hist, _zyg(), variant=VARIANT, mixed=(sub == "one-object+other-space"))
        acc.add(transitions=nops, traces=1, evaluations=nobs)
        acc.count("leaf_histories:" + sub)
        for key, (what, prefix) in lc.min_violations(viol).items():
            acc.violation(PID + key[3:], what, {"kinds": [list(k) for k in kinds], "history": prefix, "mixed": sub == "one-object+other-space"})
    if lo == 0:
        j = _JOBS[min(len(_JOBS) - 1, 40)]
        if j[0] == "hist":
            acc.sample({"kinds": [list(k) for k in j[2]], "history": lc.hist_str(j[3])})
    return acc.pack()


def build_jobs(tier, seed0, d1=None, d2=None, two=True, dlm=None, light=False):
    jobs, subs = [], []
    d1 = d1 or (5 if tier == "quick" else 7)
    lv, npre = lc.leaves("SINPF", 1, d1)
    for k in KINDS:
        jobs += [("hist", "one-object", (k,), h) for h in lv]
    subs.append(("one object, alphabet {S,I,N,P,F}: all histories to depth %d (%d histories, %d executed leaves) x 6 engine kinds"
                 % (d1, npre, len(lv)), npre * len(KINDS), len(lv) * len(KINDS)))
    d2 = d2 or (4 if tier == "quick" else 6)
    lv2, npre2 = lc.leaves("STINZPF", 1, d2)
    k2 = [KINDS[0], KINDS[5]] if tier == "quick" else KINDS
    for k in k2:
        jobs += [("hist", "one-object+setup'", (k,), h) for h in lv2]
    subs.append(("one object, alphabet {S,S',I,N,Z=iterate_n(0),P,F} (re-setup with a different script, empty batches): all histories to depth %d (%d) x %d kinds"
                 % (d2, npre2, len(k2)), npre2 * len(k2), len(lv2) * len(k2)))
    dm = dlm or (5 if tier == "quick" else 6)
    lvm, nprem = lc.leaves("STINF", 1, dm)
    km = [KINDS[0], KINDS[2], KINDS[5]] if tier == "quick" else KINDS
    for k in km:
        jobs += [("hist", "one-object+other-space", (k,), h) for h in lvm]
    subs.append(("one object, alphabet {S,S',I,N,F} where S' sets up a script on the OTHER space type (grid <-> graph) of the same engine: "
                 "all histories to depth %d (%d) x %d kinds" % (dm, nprem, len(km)), nprem * len(km), len(lvm) * len(km)))
    dl = dlm or (5 if tier == "quick" else 6)
    lvl, nprel = lc.leaves("SINFGR", 1, dl)
    kl = [KINDS[0], KINDS[3], KINDS[4]] if tier == "quick" else KINDS
    for k in kl:
        jobs += [("hist", "one-object+lifetime", (k,), h) for h in lvl]
    subs.append(("one object, alphabet {S,I,N,F,G,R} (G: another engine object is created and garbage-collected without ever being set up; "
                 "R: a new object is set up while the old one is still referenced, then the old one is dropped without finalize): all histories "
                 "to depth %d (%d) x %d kinds" % (dl, nprel, len(kl)), nprel * len(kl), len(lvl) * len(kl)))
    d3 = 4
    lv3, npre3 = lc.leaves("SINPF", 2, d3)
    pairs = [(a, b) for a in KINDS for b in KINDS] if two else []
    if tier == "quick" and two:
        pairs = [(KINDS[0], KINDS[0]), (KINDS[0], KINDS[5]), (KINDS[4], KINDS[1]), (KINDS[3], KINDS[2])]
    for pr in pairs:
        jobs += [("hist", "two-objects", pr, h) for h in lv3]
    subs.append(("two objects: all interleavings to total depth %d (%d histories) x %d ordered kind pairs" % (d3, npre3, len(pairs)),
                 npre3 * len(pairs), len(lv3) * len(pairs)))
    if tier == "thorough" and two and not light:
        lv4, npre4 = lc.leaves("SINPF", 2, 5)
        pairs6 = [(KINDS[0], KINDS[0]), (KINDS[0], KINDS[5]), (KINDS[4], KINDS[1])]
        for pr in pairs6:
            jobs += [("hist", "two-objects-d5", pr, h) for h in lv4]
        subs.append(("two objects: all interleavings to total depth 5 (%d histories) x 3 kind pairs" % npre4,
                     npre4 * 3, len(lv4) * 3))
    tc = list(term_cases(tier, seed0))
    jobs += [("simple", c) for c in tc]
    subs.append(("termination catalogue: 9 real-valued states (sub-molecule, fractional, empty) x processing modes x engines x "
                 "{grid,graph} x seed window", len(tc), len(tc)))
    exc = list(extinction_cases(tier, seed0))
    jobs += [("simple", c) for c in exc]
    subs.append(("extinction catalogue: stochastic runs ending by zero total propensity (4 states x 2 engines x {grid,graph} x seeds x 6 sampling set-ups incl. requests used up before an explicit t_max / still pending), "
                 "then iterate / iterate_n(0) / iterate_n(2) / run(0) on the completed simulation", len(exc), len(exc)))
    # model-based part: every path of TLC's state graph of spec/Lifecycle.tla is replayed on the implementation
    try:
        mo = 5 if (tier == "quick" or light) else 6
        nodes, edges, init, summary = tlaconf.run_tlc(TLA_K, mo, "c10")
        allowed, npaths = tlaconf.paths_by_ops(nodes, edges, init)
        _TLA.clear()
        _TLA.update(allowed)
        kinds_t = KINDS if tier == "thorough" else [KINDS[0], KINDS[3], KINDS[4]]
        for k in kinds_t:
            jobs += [("tla", k, ops) for ops in sorted(allowed)]
        subs.append(("TLA+ model spec/Lifecycle.tla (K=%d, MaxOps=%d): TLC %s; all %d paths (%d operation sequences) of its state "
                     "graph replayed on %d engine kinds" % (TLA_K, mo, summary, npaths, len(allowed), len(kinds_t)),
                     len(nodes) * len(kinds_t), len(allowed) * len(kinds_t)))
    except tlaconf.ModelUnavailable as e:
        subs.append(("TLA+ model conformance NOT RUN: %s" % str(e)[:300], 0, 0))
    fcs = [{"sub": "factories", "factory": f, "kind": k} for f, k in (("default_engine", "euler"), ("euler_engine", "euler"),
                                                                       ("tauleap_engine", "tauleap"), ("gillespie_engine", "gillespie"))]
    jobs += [("simple", c) for c in fcs]
    subs.append(("engine factories of engine_collection: two calls give two objects with their own status (4 factories)", len(fcs), len(fcs)))
    stc = list(step_cases()) + list(reset_cases())
    jobs += [("simple", c) for c in stc]
    subs.append(("fixed-step completion count: 3 dt x 8 t_max x 4 time scales (1, 2^-40, 1e-10, 1e6; scale 1 also with step and end time written in ms) x 2 engines x {grid,graph}; + default end time with the request list replaced after construction (4 list pairs)", len(stc), len(stc)))
    return jobs, subs


def _crash_tag(j, at):
    """one-object | two-objects | two-objects-interference (another object was live, or the crashing observation
    is of an object other than the one just operated)."""
    if len(j[2]) == 1:
        return "one-object"
    hist = at.split()[-1].split(",")
    st = {}
    for h in hist:
        # an operation on one object while another one is live: from here on the objects share native state (known finding)
        if any(v == "live" for k, v in st.items() if k != h[1]):
            return "two-objects-interference"
        st[h[1]] = "released" if h[0] == "F" else "live"
    last_obj = hist[-1][1]
    nlive = sum(1 for v in st.values() if v == "live")
    if at.startswith("observers-of-object-"):
        observed = at[len("observers-of-object-")]
        if observed != last_obj or nlive > 1:
            return "two-objects-interference"
        return "two-objects"
    others_live = any(v == "live" for k, v in st.items() if k != last_obj)
    return "two-objects-interference" if others_live else "two-objects"


def describe(j):
    if j[0] == "simple":
        return j[1]
    if j[0] == "tla":
        return {"sub": "tla", "kind": list(j[1]), "ops": j[2]}
    return {"kinds": [list(k) for k in j[2]], "history": lc.hist_str(j[3]), "mixed": j[1] == "one-object+other-space"}


def run(ctx):
    global _JOBS
    _JOBS, subs = build_jobs(ctx.tier, ctx.seed)
    eng.so_path(VARIANT)
    eng.so_path("plain")
    done = 0
    for job, r in pool.pmap_split(_work, len(_JOBS), 25, timeout=45, single_timeout=15, max_failures=20000):
        if isinstance(r, pool.Crash) and r.kind == "skipped":
            ctx.exhaustive = False
            if "re-run-of-failed-chunks-capped" not in ctx.caps:
                ctx.caps.append("re-run-of-failed-chunks-capped")
            continue
        if isinstance(r, pool.Crash):
            j = _JOBS[job[0]]
            if j[0] == "tla":
                key = "%s:model-conformance:%s:%s" % (PID, r.kind, j[2])
            elif j[0] == "simple":
                key = "%s:%s:%s:%s:%s" % (PID, j[1]["sub"], r.kind, j[1]["engine"], j[1]["script"].get("isp", ""))
            else:
                live2 = len(j[2]) > 1
                at = lc.announced(r.detail) or ("op " + lc.hist_str(j[3]))
                key = "%s:%s:%s:%s" % (PID, _crash_tag(j, at), r.kind, at.replace(" ", ":"))
                d = describe(j)
                if at.startswith("op "):
                    d["history"] = at[3:]
                ctx.violation(key, r.detail, d)
                done += 1
                continue
            ctx.violation(key, r.detail, describe(j))
            done += 1
            continue
        core.merge(ctx, r)
        done += job[1] - job[0]
    for name, nhist, nleaves in subs:
        ctx.subspace(name, nhist, nhist if done == len(_JOBS) else 0, exhaustive=(done == len(_JOBS)), executed_leaves=nleaves)
        ctx.add(states=nhist)
    ctx.nontrivial = ctx.states
    ctx.rule("states = distinct lifecycle-respecting histories (each prefix of an executed leaf history is a visited state; "
             "histories are never merged); transitions = operations executed on real engine objects; evaluations = observer "
             "sets compared with the canonical history of the abstract state; every history with >= 1 driver/sample/finalize "
             "operation after the first set-up is non-trivial (all are, beyond depth 1)")
    ctx.assume("reference lifecycle model (DESIGN A.5); canonical histories run in a pristine forked process on the plain build; "
               "bounds: depth per sub-space as listed; per-history time limit 45 s")
    ctx.note("engine_build", eng.so_path(VARIANT))


def replay(case):
    return check_case(case)
