"""C15 — grid geometry is consistent everywhere, and a grid equals its graph.

E1, complete over shapes: every grid w,h,d in {1..N}^3 x the 8 periodic/reflecting combinations (N = 4 thorough,
3 quick), every cell, every ordered pair of distinct cells, every position form, every out-of-range position of
the stated window, on the real RDGridSpace / kinetics / native Euler engine / grid_to_graph, against the
reference layout model mc/ref/layout.py (index = z*w*h + y*w + x; per face the cell at +-1 along the axis,
wrapped if the axis is periodic, absent if outside).

Sub-spaces (one `sub` value each):
  geom    one case per grid: bijection, position forms, rejection of outside positions, are_neighbors on every
          ordered pair of distinct cells, get_neighbors of every cell
  pykin   (grid, source cell), grids of at most 12 (quick 8) cells: neighbour set + fluxes seen by
          kinetics.compute_dstatedt from a one-hot state, pure diffusion
  engine  (grid, source cell), all grids: one native Euler step from a one-hot state: neighbour set and flux
          multiplicity (= number of shared faces)
  graph   (grid, unit/volume variant): grid_to_graph node count, volumes, environments, edge multiset between
          distinct cells, surface = V^(2/3), distance = V^(1/3) in SI
  traj    (grid, variant): 3 Euler steps on the grid system and on the same system over grid_to_graph(grid),
          heterogeneous network, agree within 1e-9 of the largest value
  pygraph grids of at most 12 (quick 8) cells whose periodic axes all have length >= 3: compute_dstatedt on grid
          and on graph agree
"""
import itertools
from fractions import Fraction as F

from mc import core, pool, uq, eng
from mc.ref import layout as L
from mc.ref import si

core.setup_paths()
import numpy as np  # noqa: E402
from strengths import RDGridSpace, RDGraphSpace, RDNetwork, RDSystem, Species, Reaction  # noqa: E402
from strengths.units import UnitsSystem, UnitValue, UnitArray  # noqa: E402
from strengths.rdscript import RDScript  # noqa: E402
from strengths.coarsegrain import grid_to_graph  # noqa: E402
from strengths import kinetics  # noqa: E402

P = "C15"
FORMS = ("linear", "tuple", "list", "object")
CFORMS = ("tuple", "list", "object")
REL_FLUX = 1e-12
REL_TRAJ = 1e-9
REL_GEOM = 1e-12


class Coord:
    """'Coord like' object of the docstrings: default-constructible, attributes x, y, z."""

    def __init__(self, x=0, y=0, z=0):
        self.x = x
        self.y = y
        self.z = z


def _pos(form, w, h, d, x, y, z):
    if form == "linear":
        return L.index(w, h, d, x, y, z)
    if form == "tuple":
        return (x, y, z)
    if form == "list":
        return [x, y, z]
    if form == "object":
        return Coord(x, y, z)
    raise ValueError(form)


def _bc(per):
    return {a: ("periodical" if p else "reflecting") for a, p in zip("xyz", per)}


def env_map(n):
    """Heterogeneous, aperiodic-looking environment map over 3 environments (2 = the zero-D wall)."""
    return [(2 * i + i // 3 + (i * i) // 5) % 3 for i in range(n)]


def primes(n):
    out, k = [], 2
    while len(out) < n:
        if all(k % p for p in out if p * p <= k):
            out.append(k)
        k += 1
    return out


# volume / unit-system variants: (cell_vol argument, grid units system, exact volume in (unit, value))
VARIANTS = [
    {"vol": 1, "sys": ("µm", "s", "molecule"), "vsys": ("µm", "s", "molecule"), "v": 1},
    {"vol": "8 µm3", "sys": ("nm", "ms", "mol"), "vsys": ("µm", "s", "molecule"), "v": 8},
    {"vol": 27, "sys": ("mm", "min", "µmol"), "vsys": ("mm", "min", "µmol"), "v": 27},
    {"vol": "0.5 dm3", "sys": ("µm", "s", "molecule"), "vsys": ("dm", "s", "molecule"), "v": 0.5},
]


def _volume_si(variant):
    v = VARIANTS[variant]
    return float(F(v["v"]) * si.si_scale(v["vsys"], (3, 0, 0)))


def make_grid(case, variant=0, hetero=True):
    w, h, d = case["w"], case["h"], case["d"]
    v = VARIANTS[variant]
    return RDGridSpace(w=w, h=h, d=d, cell_env=(env_map(w * h * d) if hetero else 0), cell_vol=v["vol"],
                       boundary_conditions=_bc(case["per"]), units_system=uq.mk_sys(v["sys"]))


def _per(case):
    return tuple(bool(p) for p in case["per"])


class Out:
    """Violations of one case, de-duplicated by key (first occurrence kept, count appended)."""

    def __init__(self):
        self.first = {}
        self.n = {}
        self.order = []
        self.ops = 0
        self.evals = 0
        self.counts = {}

    def add(self, key, what):
        if key not in self.first:
            self.first[key] = what
            self.n[key] = 0
            self.order.append(key)
        self.n[key] += 1

    def count(self, k, n=1):
        self.counts[k] = self.counts.get(k, 0) + n

    def result(self):
        return [(k, self.first[k] + (" [%d occurrence(s) in this case]" % self.n[k] if self.n[k] > 1 else ""))
                for k in self.order]


def _exc(e):
    return "%s: %s" % (type(e).__name__, str(e)[:200])


# ---- geom ----------------------------------------------------------------------------------------

def _must_raise(out, api, detail, f, *args):
    out.ops += 1
    out.evals += 1
    try:
        r = f(*args)
    except Exception:
        out.count("outside_positions_rejected")
        return
    out.add("%s:%s:out-of-range-accepted:%s" % (P, api, detail),
            "%s(%s) returned %r instead of raising" % (api, ", ".join(_show(a) for a in args), r))


def _show(a):
    if isinstance(a, Coord):
        return "Coord(%r,%r,%r)" % (a.x, a.y, a.z)
    return repr(a)


def _geom(case, out):
    w, h, d = case["w"], case["h"], case["d"]
    per = _per(case)
    n = w * h * d
    dims = (w, h, d)
    env = env_map(n)
    g = make_grid(case)
    out.ops += 1
    if g.size() != n:
        out.add(P + ":RDGridSpace.size:wrong", "size() = %r for %dx%dx%d" % (g.size(), w, h, d))
    if (g.w, g.h, g.d) != dims:
        out.add(P + ":RDGridSpace.size:wrong", "(w,h,d) = %r for %r" % ((g.w, g.h, g.d), dims))

    cells = [(x, y, z) for z in range(d) for y in range(h) for x in range(w)]
    # 1. bijection and position forms
    for (x, y, z) in cells:
        iref = L.index(w, h, d, x, y, z)
        for form in FORMS:
            p = _pos(form, w, h, d, x, y, z)
            try:
                out.ops += 4
                out.evals += 4
                i = g.get_cell_index(p)
                if not (isinstance(i, (int, np.integer)) and not isinstance(i, bool) and int(i) == iref):
                    out.add("%s:get_cell_index:wrong-index:%s" % (P, form),
                            "get_cell_index(%s) = %r, index = z*w*h + y*w + x = %d on %dx%dx%d"
                            % (_show(p), i, iref, w, h, d))
                c = g.get_cell_coordinates(g.get_cell_index(p))
                if not (isinstance(c, tuple) and tuple(c) == (x, y, z)):
                    out.add("%s:round-trip:%s" % (P, form),
                            "get_cell_coordinates(get_cell_index(%s)) = %r, expected %r" % (_show(p), c, (x, y, z)))
                e = g.get_cell_env(p)
                if int(e) != env[iref]:
                    out.add("%s:get_cell_env:wrong-environment:%s" % (P, form),
                            "get_cell_env(%s) = %r, cell_env[%d] = %d" % (_show(p), e, iref, env[iref]))
                if not g.is_within_bounds(p):
                    out.add("%s:is_within_bounds:inside-rejected:%s" % (P, form),
                            "is_within_bounds(%s) is false on %dx%dx%d" % (_show(p), w, h, d))
            except Exception as ex:
                out.add("%s:position-form:unexpected-exception:%s" % (P, form),
                        "valid position %s on %dx%dx%d: %s" % (_show(p), w, h, d, _exc(ex)))
        try:
            out.ops += 2
            out.evals += 2
            c = g.get_cell_coordinates(iref)
            if not (isinstance(c, tuple) and c == (x, y, z) and c == L.coords(w, h, d, iref)):
                out.add(P + ":get_cell_coordinates:wrong-coordinates:tuple",
                        "get_cell_coordinates(%d) = %r, expected %r on %dx%dx%d" % (iref, c, (x, y, z), w, h, d))
            c2 = g.get_cell_coordinates(iref, tuple)
            o = g.get_cell_coordinates(iref, return_type=Coord)
            if not (isinstance(o, Coord) and (o.x, o.y, o.z) == (x, y, z)) or c2 != (x, y, z):
                out.add(P + ":get_cell_coordinates:wrong-coordinates:object",
                        "get_cell_coordinates(%d, return_type=Coord) = %r (%r), expected %r"
                        % (iref, o, getattr(o, "__dict__", None), (x, y, z)))
        except Exception as ex:
            out.add(P + ":get_cell_coordinates:unexpected-exception",
                    "valid index %d on %dx%dx%d: %s" % (iref, w, h, d, _exc(ex)))

    # 2. positions outside the grid are rejected
    inside0 = 0
    lin_out = [("linear-negative", i) for i in range(-n, 0)] + [("linear-too-large", i) for i in range(n, 2 * n + 1)]
    for detail, i in lin_out:
        _must_raise(out, "get_cell_index", detail, g.get_cell_index, i)
        _must_raise(out, "get_cell_coordinates", detail, g.get_cell_coordinates, i)
        _must_raise(out, "get_cell_env", detail, g.get_cell_env, i)
        _must_raise(out, "are_neighbors", "position1:" + detail, g.are_neighbors, i, inside0)
        _must_raise(out, "are_neighbors", "position2:" + detail, g.are_neighbors, inside0, i)
        _must_raise(out, "get_neighbors", detail, g.get_neighbors, i)
        out.ops += 1
        out.evals += 1
        try:
            r = g.is_within_bounds(i)
            if r:
                out.add("%s:is_within_bounds:outside-accepted:%s" % (P, detail),
                        "is_within_bounds(%d) = %r on a grid of %d cells" % (i, r, n))
        except Exception:
            pass
    for (x, y, z) in cells:
        for k in range(3):
            for bad in (-1, dims[k]):
                q = [x, y, z]
                q[k] = bad
                for form in CFORMS:
                    detail = "%s:%s%s" % (form, "xyz"[k], "-below" if bad < 0 else "-above")
                    mk = lambda: _pos(form, w, h, d, q[0], q[1], q[2])  # noqa: E731
                    _must_raise(out, "get_cell_index", detail, g.get_cell_index, mk())
                    _must_raise(out, "get_cell_env", detail, g.get_cell_env, mk())
                    _must_raise(out, "are_neighbors", "position1:" + detail, g.are_neighbors, mk(), inside0)
                    _must_raise(out, "are_neighbors", "position2:" + detail, g.are_neighbors, inside0, mk())
                    _must_raise(out, "get_neighbors", detail, g.get_neighbors, mk())
                    out.ops += 1
                    out.evals += 1
                    try:
                        r = g.is_within_bounds(mk())
                        if r:
                            out.add("%s:is_within_bounds:outside-accepted:%s" % (P, detail),
                                    "is_within_bounds(%s) = %r on %dx%dx%d" % (_show(mk()), r, w, h, d))
                    except Exception:
                        pass

    # 3. pairwise neighbour test on every ordered pair of distinct cells
    rel = [[L.related(w, h, d, per, a, b) for b in range(n)] for a in range(n)]
    got = [[None] * n for _ in range(n)]
    for a in range(n):
        for b in range(n):
            if a == b:
                continue
            out.ops += 1
            try:
                got[a][b] = bool(g.are_neighbors(a, b))
            except Exception as ex:
                out.add(P + ":are_neighbors:unexpected-exception",
                        "are_neighbors(%d, %d) on %dx%dx%d per=%s: %s" % (a, b, w, h, d, list(per), _exc(ex)))
    for a in range(n):
        for b in range(n):
            if a == b or got[a][b] is None:
                continue
            out.evals += 2
            out.count("pairs_related" if rel[a][b] else "pairs_unrelated")
            if got[b][a] is not None and got[a][b] != got[b][a]:
                out.add(P + ":are_neighbors:not-symmetric",
                        "are_neighbors(%d,%d)=%r but are_neighbors(%d,%d)=%r on %dx%dx%d per=%s"
                        % (a, b, got[a][b], b, a, got[b][a], w, h, d, list(per)))
            if got[a][b] != rel[a][b]:
                out.add("%s:are_neighbors:differs-from-reference:%s" % (P, "missing" if rel[a][b] else "spurious"),
                        "are_neighbors(%d,%d)=%r, reference relation says %r (cells %r and %r, %dx%dx%d, periodic=%s)"
                        % (a, b, got[a][b], rel[a][b], L.coords_fast(w, h, d, a), L.coords_fast(w, h, d, b),
                           w, h, d, list(per)))
    # the same test through coordinate forms (tuple first, object second)
    for a in range(n):
        ca = L.coords_fast(w, h, d, a)
        for b in range(n):
            if a == b:
                continue
            cb = L.coords_fast(w, h, d, b)
            out.ops += 1
            out.evals += 1
            try:
                r = bool(g.are_neighbors(tuple(ca), Coord(*cb)))
                if r != rel[a][b]:
                    out.add("%s:are_neighbors:differs-from-reference:coordinate-forms" % P,
                            "are_neighbors(%r, Coord%r)=%r, reference %r on %dx%dx%d periodic=%s"
                            % (ca, cb, r, rel[a][b], w, h, d, list(per)))
            except Exception as ex:
                out.add(P + ":are_neighbors:unexpected-exception",
                        "are_neighbors(%r, Coord%r): %s" % (ca, cb, _exc(ex)))

    # 4. neighbour query of every cell, in three position forms
    for (x, y, z) in cells:
        c = L.index(w, h, d, x, y, z)
        ref = L.neighbours(w, h, d, per, c)
        for form in ("linear", "tuple", "object"):
            p = _pos(form, w, h, d, x, y, z)
            out.ops += 1
            out.evals += 1
            try:
                nb = list(g.get_neighbors(p))
            except Exception as ex:
                out.add(P + ":get_neighbors:unexpected-exception",
                        "get_neighbors(%s) on %dx%dx%d periodic=%s: %s" % (_show(p), w, h, d, list(per), _exc(ex)))
                continue
            bad = [j for j in nb if not (isinstance(j, (int, np.integer)) and 0 <= int(j) < n)]
            if bad:
                out.add(P + ":get_neighbors:invalid-index",
                        "get_neighbors(%s) = %r contains %r (grid of %d cells)" % (_show(p), nb, bad, n))
                continue
            s = sorted(set(int(j) for j in nb) - {c})
            if s != ref:
                cls = "missing" if set(ref) - set(s) else "spurious"
                out.add("%s:get_neighbors:differs-from-reference:%s" % (P, cls),
                        "set(get_neighbors(%s)) - {self} = %r, reference %r (cell %r of %dx%dx%d, periodic=%s)"
                        % (_show(p), s, ref, (x, y, z), w, h, d, list(per)))
            if len(nb) != len(set(nb)):
                out.count("get_neighbors_lists_with_duplicates")
    return n >= 2


# ---- one-hot experiments --------------------------------------------------------------------------

AMOUNT = 1000.0
D1 = 1.0          # µm2/s
ONEHOT_VARIANT = 1   # 8 µm3 cells -> edge 2 µm -> D/edge^2 = 0.25 /s
DT = 1e-3


def _onehot_system(case):
    g = make_grid(case, ONEHOT_VARIANT, hetero=False)
    net = RDNetwork(species=[Species("A", D=D1)], reactions=[], environments=["e0"])
    s = RDSystem(net, g)
    s.set_state("A", int(case["c"]), AMOUNT)
    return s


def _onehot_expect(case):
    w, h, d = case["w"], case["h"], case["d"]
    per = _per(case)
    c = int(case["c"])
    n = w * h * d
    rate = D1 / 4.0 * AMOUNT      # D / edge^2 * amount, per shared face  (molecule/s)
    exp = [0.0] * n
    for j in range(n):
        if j != c:
            exp[j] = L.multiplicity(w, h, d, per, c, j) * rate
    exp[c] = -sum(exp)
    return exp, L.neighbours(w, h, d, per, c), rate


def _compare_onehot(site, case, got, scale_factor, out):
    """got[j] = change (or derivative) of cell j; expected = exp[j] * scale_factor."""
    w, h, d = case["w"], case["h"], case["d"]
    per = _per(case)
    c = int(case["c"])
    exp, ref, rate = _onehot_expect(case)
    n = len(exp)
    out.evals += n
    if len(got) != n:
        out.add("%s:%s:wrong-length" % (P, site), "%d values for %d cells" % (len(got), n))
        return
    seen = sorted(j for j in range(n) if j != c and got[j] != 0)
    where = "source cell %d=%r of %dx%dx%d, periodic=%s" % (c, L.coords_fast(w, h, d, c), w, h, d, list(per))
    if seen != ref:
        cls = "missing" if set(ref) - set(seen) else "spurious"
        out.add("%s:%s:neighbour-set:%s" % (P, site, cls),
                "cells receiving matter %r, reference neighbours %r (%s)" % (seen, ref, where))
        return
    tol = REL_FLUX * rate * scale_factor * 6
    for j in range(n):
        if j == c:
            continue
        if abs(got[j] - exp[j] * scale_factor) > tol:
            m = L.multiplicity(w, h, d, per, c, j)
            out.add("%s:%s:flux-multiplicity" % (P, site),
                    "cell %d receives %.17g, expected %d shared face(s) x D/edge^2 x amount%s = %.17g (%s)"
                    % (j, got[j], m, " x dt" if scale_factor != 1 else "", exp[j] * scale_factor, where))
            return
    if abs(got[c] - exp[c] * scale_factor) > tol:
        out.add("%s:%s:source-loss" % (P, site),
                "source cell changes by %.17g, expected %.17g (%s)" % (got[c], exp[c] * scale_factor, where))


def _pykin(case, out):
    s = _onehot_system(case)
    out.ops += s.space.size()
    r = kinetics.compute_dstatedt(s)
    got = [float(x) for x in r.convert(UnitsSystem()).value]
    _compare_onehot("kinetics.compute_dstatedt", case, got, 1.0, out)
    return len(_onehot_expect(case)[1]) > 0


def _kinpairs(case, out):
    """kinetics.compute_diffusion_rates(system, species, a, b) for every ordered pair of distinct cells, the cells given as
    linear indices and as coordinate tuples: the pair is accepted exactly when a and b are neighbours (the kinetics
    functions use the same relation as the neighbour test; how a non-neighbour pair is refused is not pinned)."""
    w, h, d = case["w"], case["h"], case["d"]
    per = _per(case)
    n = w * h * d
    s = _onehot_system(dict(case, c=0))
    for a in range(n):
        for b in range(n):
            if a == b:
                continue
            exp = L.related(w, h, d, per, a, b)
            for form in ("index", "tuple"):
                pa, pb = (a, b) if form == "index" else (tuple(L.coords_fast(w, h, d, a)), tuple(L.coords_fast(w, h, d, b)))
                out.ops += 1
                try:
                    r = kinetics.compute_diffusion_rates(s, "A", pa, pb)
                    got = True
                    len(r)
                except Exception:
                    got = False
                out.evals += 1
                if got != exp:
                    out.add(P + ":kinetics.compute_diffusion_rates:%s" % ("non-neighbours-accepted" if got else "neighbours-refused"),
                            "cells %d=%s and %d=%s (given as %s) of %dx%dx%d periodic=%s: %s, reference relation says %s"
                            % (a, L.coords_fast(w, h, d, a), b, L.coords_fast(w, h, d, b), form, w, h, d, list(per),
                               "rates returned" if got else "refused", "neighbours" if exp else "not neighbours"))
    return n >= 2


def _engine(case, out):
    s = _onehot_system(case)
    sc = RDScript(s, t_sample=[0], time_step=DT, sampling_policy="on_iteration", t_max=DT / 2, rng_seed=1)
    tr, nit = eng.simulate("euler", sc, max_iter=10)
    out.ops += 1
    n = s.space.size()
    data = [float(x) for x in tr.data.convert(UnitsSystem()).value]
    if nit != 1 or len(data) != 2 * n:
        out.add(P + ":engine-euler-grid:not-one-step",
                "%d iteration(s), %d trajectory values for %d cells (expected 1 step, samples at t0 and t1)"
                % (nit, len(data), n))
        return True
    x0 = data[:n]
    if x0 != [AMOUNT if j == case["c"] else 0.0 for j in range(n)]:
        out.add(P + ":engine-euler-grid:initial-sample", "t0 sample %r is not the one-hot state" % (x0,))
        return True
    got = [data[n + j] - data[j] for j in range(n)]
    _compare_onehot("engine-euler-grid", case, got, DT, out)
    return len(_onehot_expect(case)[1]) > 0


# ---- grid -> graph --------------------------------------------------------------------------------

def _rel(a, b):
    return abs(a - b) / abs(b) if b else (0.0 if a == 0 else float("inf"))


def _graph(case, out):
    w, h, d = case["w"], case["h"], case["d"]
    per = _per(case)
    n = w * h * d
    variant = case["variant"]
    g = make_grid(case, variant)
    gr = grid_to_graph(g)
    out.ops += 1
    tag = "grid_to_graph"
    if type(gr) is not RDGraphSpace:
        out.add("%s:%s:result-type" % (P, tag), "returned %s" % type(gr).__name__)
        return True
    V = _volume_si(variant)
    env = env_map(n)
    out.evals += 1
    if gr.size() != n or len(gr.nodes) != n:
        out.add("%s:%s:node-count" % (P, tag), "%d nodes for a grid of %d cells" % (gr.size(), n))
        return True
    for i, node in enumerate(gr.nodes):
        out.evals += 2
        v = float(uq.si_value(node.volume))
        if uq.dim_of(node.volume.units) != (3, 0, 0) or not _rel(v, V) <= REL_GEOM:
            out.add("%s:%s:volume" % (P, tag), "node %d volume %s = %.17g m3, grid cell volume %.17g m3 (cell_vol=%r, "
                    "grid units %s)" % (i, node.volume, v, V, VARIANTS[variant]["vol"], VARIANTS[variant]["sys"]))
            break
        if int(node.environment) != env[i]:
            out.add("%s:%s:environment" % (P, tag), "node %d environment %r, cell_env[%d] = %d"
                    % (i, node.environment, i, env[i]))
            break
    # what the engine and the kinetics read
    va = gr.get_cell_vol_array()
    vs = [float(x) for x in uq.si_value(va)]
    out.evals += 2
    if len(vs) != n or any(not _rel(x, V) <= REL_GEOM for x in vs):
        out.add("%s:%s:volume-array" % (P, tag), "get_cell_vol_array() = %s -> %r m3, expected %d x %.17g"
                % (va, vs[:4], n, V))
    if [int(e) for e in gr.get_cell_env_array()] != env:
        out.add("%s:%s:environment-array" % (P, tag), "get_cell_env_array() = %r, grid %r"
                % (list(gr.get_cell_env_array()), env))
    # edges
    pairs = []
    loops = 0
    S, Dst = V ** (2.0 / 3.0), V ** (1.0 / 3.0)
    for k, e in enumerate(gr.edges):
        out.evals += 3
        if not (0 <= e.i < n and 0 <= e.j < n):
            out.add("%s:%s:edge-index-out-of-range" % (P, tag), "edge %d = (%r,%r) on %d nodes" % (k, e.i, e.j, n))
            continue
        if e.i == e.j:
            loops += 1          # a self pair carries no flux; not constrained by the statement
            continue
        pairs.append((min(e.i, e.j), max(e.i, e.j)))
        sf = float(uq.si_value(e.surface))
        ds = float(uq.si_value(e.distance))
        if uq.dim_of(e.surface.units) != (2, 0, 0) or not _rel(sf, S) <= REL_GEOM:
            out.add("%s:%s:surface" % (P, tag), "edge (%d,%d) surface %s = %.17g m2, cell face V^(2/3) = %.17g m2"
                    % (e.i, e.j, e.surface, sf, S))
        if uq.dim_of(e.distance.units) != (1, 0, 0) or not _rel(ds, Dst) <= REL_GEOM:
            out.add("%s:%s:distance" % (P, tag), "edge (%d,%d) distance %s = %.17g m, cell edge V^(1/3) = %.17g m"
                    % (e.i, e.j, e.distance, ds, Dst))
    ref = L.edges_distinct(w, h, d, per)
    pairs.sort()
    out.evals += 1
    if pairs != ref:
        allp = sorted(set(pairs) | set(ref))
        missing = [(p, ref.count(p) - pairs.count(p)) for p in allp if ref.count(p) > pairs.count(p)]
        extra = [(p, pairs.count(p) - ref.count(p)) for p in allp if pairs.count(p) > ref.count(p)]
        small = all(dim >= 3 or not pe for dim, pe in zip((w, h, d), per))
        cls = ("missing" if missing else "extra") + ("" if small else ":periodic-axis-of-length-1-or-2")
        out.add("%s:%s:edge-multiset:%s" % (P, tag, cls),
                "edges between distinct cells differ from the face list of %dx%dx%d periodic=%s: missing (pair, count) "
                "%r, extra %r" % (w, h, d, list(per), missing[:8], extra[:8]))
    if loops:
        out.count("graph_self_pairs_seen", loops)
    if len(ref) != len(set(ref)):
        out.count("graphs_with_parallel_edges_expected")
    return len(ref) > 0


ENVS = ["e0", "e1", "wall"]
TRAJ_DT = 0.01


def _hetero_network():
    A = Species("A", D={"e0": 1.0, "e1": 0.5, "wall": 0})
    B = Species("B", D={"e0": 0.3, "e1": 0.7, "wall": 0})
    r = Reaction("A -> B", kf={"e0": 0.2, "e1": 0.05, "wall": 0.01})
    # reactions of other orders after the first one (a per-reaction quantity computed once for all cells - order, volume
    # factor - must be the one of that reaction in both twins)
    r2 = Reaction("2 B -> A", kf={"e0": 0.003, "e1": 0.001, "wall": 0.0005})
    r3 = Reaction(" -> B", kf={"e0": 0.7, "e1": 0.2, "wall": 0})
    return RDNetwork(species=[A, B], reactions=[r, r2, r3], environments=list(ENVS))


def _hetero_systems(case, variant, chemostat):
    n = case["w"] * case["h"] * case["d"]
    g = make_grid(case, variant)
    net = _hetero_network()
    state = [float(p) for p in primes(2 * n)]
    chem = [0] * (2 * n)
    if chemostat and n >= 2:
        chem[n + n // 2] = 1       # species B in the middle cell
        chem[0] = 1                # species A in cell 0
    s1 = RDSystem(net, g, state=list(state), chemostats=list(chem))
    s2 = RDSystem(net, grid_to_graph(g), state=list(state), chemostats=list(chem))
    return s1, s2


def _traj(case, out):
    w, h, d = case["w"], case["h"], case["d"]
    per = _per(case)
    n = w * h * d
    variant = case["variant"]
    s1, s2 = _hetero_systems(case, variant, chemostat=bool(case.get("chem")))
    res = []
    for s in (s1, s2):
        sc = RDScript(s, t_sample=[0], time_step=TRAJ_DT, sampling_policy="on_iteration", t_max=2.5 * TRAJ_DT,
                      rng_seed=1)
        tr, nit = eng.simulate("euler", sc, max_iter=20)
        out.ops += 1
        res.append(([float(x) for x in tr.data.convert(UnitsSystem()).value],
                    [float(x) for x in tr.t.convert(UnitsSystem()).value], nit))
    (a, ta, na), (b, tb, nb) = res
    out.evals += len(a)
    where = "%dx%dx%d periodic=%s variant=%d" % (w, h, d, list(per), variant)
    if na != 3 or len(a) != 4 * 2 * n:
        out.add(P + ":trajectory:grid-run-shape", "%d iterations, %d values (expected 3 steps, 4 samples of %d) %s"
                % (na, len(a), 2 * n, where))
        return True
    if nb != na or len(b) != len(a) or ta != tb:
        out.add(P + ":trajectory:graph-run-shape", "graph run: %d iterations, %d values, t=%r; grid run: %d, %d, %r (%s)"
                % (nb, len(b), tb, na, len(a), ta, where))
        return True
    if a[:2 * n] == a[2 * n:4 * n]:
        out.count("trajectories_static")
    scale = max(abs(x) for x in a)
    worst, wi = 0.0, -1
    for i, (x, y) in enumerate(zip(a, b)):
        e = abs(x - y)
        if not e <= worst:
            worst, wi = e, i
    if not worst <= REL_TRAJ * scale:
        smp, rem = divmod(wi, 2 * n)
        sp, cell = divmod(rem, n)
        small = all(dim >= 3 or not pe for dim, pe in zip((w, h, d), per))
        out.add(P + ":trajectory:grid-vs-graph" + ("" if small else ":periodic-axis-of-length-1-or-2"),
                "Euler trajectories differ by %.3e (> 1e-9 x %.6g) at sample %d species %d cell %d: grid %.17g graph %.17g (%s)"
                % (worst, scale, smp, sp, cell, a[wi], b[wi], where))
    return n >= 2


# sampling configurations of the grid / graph twin comparison: ordinary decimal steps (the sums of which fall just short
# of / just beyond the multiples of the interval) and dyadic ones, the three policies
SAMPLINGS = [
    {"policy": "on_interval", "dt": 0.1, "interval": 1.0, "t_sample": [0, 3.05]},
    {"policy": "on_interval", "dt": 1e-3, "interval": 0.01, "t_sample": [0, 0.0305]},
    {"policy": "on_interval", "dt": 0.125, "interval": 0.5, "t_sample": [0, 2.05]},
    {"policy": "on_interval", "dt": 0.3, "interval": 0.9, "t_sample": [0, 3.7]},
    {"policy": "on_t_sample", "dt": 0.1, "interval": None, "t_sample": [0, 0.5, 1, 1.5, 2, 2.5, 3]},
    {"policy": "on_t_sample", "dt": 0.3, "interval": None, "t_sample": [0, 0.3, 0.6, 0.9, 0.9, 1.2000000000000002]},
    {"policy": "on_t_sample", "dt": 0.125, "interval": None, "t_sample": [0, 0.25, 0.5, 1.0]},
    {"policy": "on_iteration", "dt": 0.1, "interval": None, "t_sample": [0, 1.05]},
]


def _trajsamp(case, out):
    """Same Euler run on a grid and on grid_to_graph(grid) under one sampling configuration: the recorded times must be
    the same list and the recorded states equal (the two native base classes have their own copy of the sampling code)."""
    w, h, d = case["w"], case["h"], case["d"]
    per = _per(case)
    n = w * h * d
    cfg = SAMPLINGS[case["cfg"]]
    s1, s2 = _hetero_systems(case, case["variant"], chemostat=False)
    res = []
    for s in (s1, s2):
        kw = {}
        if cfg["interval"] is not None:
            kw["sampling_interval"] = cfg["interval"]
        sc = RDScript(s, t_sample=list(cfg["t_sample"]), time_step=cfg["dt"], sampling_policy=cfg["policy"], rng_seed=1, **kw)
        tr, nit = eng.simulate("euler", sc, max_iter=400)
        out.ops += 1
        res.append(([float(x) for x in tr.data.convert(UnitsSystem()).value],
                    [float(x) for x in tr.t.convert(UnitsSystem()).value], nit))
    (a, ta, na), (b, tb, nb) = res
    out.evals += len(a) + len(ta)
    where = "%dx%dx%d periodic=%s variant=%d, %s dt=%g interval=%r t_sample=%r" % (
        w, h, d, list(per), case["variant"], cfg["policy"], cfg["dt"], cfg["interval"], cfg["t_sample"])
    if na != nb or ta != tb:
        out.add(P + ":trajectory:sampling:%s:grid-and-graph-record-different-times" % cfg["policy"],
                "grid run: %d iterations, times %r; graph run: %d iterations, times %r (%s)" % (na, ta[:12], nb, tb[:12], where))
        return True
    if len(ta) < 2:
        out.count("sampling_runs_with_one_record")
    scale = max([abs(x) for x in a] + [1e-300])
    worst = max([abs(x - y) for x, y in zip(a, b)] + [0.0])
    if len(a) != len(b) or not worst <= REL_TRAJ * scale:
        out.add(P + ":trajectory:sampling:%s:grid-vs-graph" % cfg["policy"],
                "recorded states differ by %.3e (> 1e-9 x %.6g) (%s)" % (worst, scale, where))
    return True


def _pygraph(case, out):
    w, h, d = case["w"], case["h"], case["d"]
    per = _per(case)
    n = w * h * d
    s1, s2 = _hetero_systems(case, case["variant"], chemostat=False)
    r1 = kinetics.compute_dstatedt(s1)
    r2 = kinetics.compute_dstatedt(s2)
    out.ops += 4 * n
    a = [float(x) for x in r1.convert(UnitsSystem()).value]
    b = [float(x) for x in r2.convert(UnitsSystem()).value]
    out.evals += len(a)
    where = "%dx%dx%d periodic=%s variant=%d" % (w, h, d, list(per), case["variant"])
    if len(a) != 2 * n or len(b) != 2 * n:
        out.add(P + ":kinetics-grid-vs-graph:length", "%d and %d entries for %d state entries (%s)"
                % (len(a), len(b), 2 * n, where))
        return True
    scale = max(abs(x) for x in a) or 1.0
    for i, (x, y) in enumerate(zip(a, b)):
        if not abs(x - y) <= REL_TRAJ * scale:
            sp, cell = divmod(i, n)
            out.add(P + ":kinetics-grid-vs-graph:value",
                    "compute_dstatedt differs at species %d cell %d: grid %.17g graph %.17g (%s)" % (sp, cell, x, y, where))
            break
    return n >= 2


# ---- histories (E2): set_boundary_conditions sequences and copy() on ONE object ------------------
#
# Documentation: building_and_simulating_rds.rst "By default, reflecting boundary conditions are applied ... it is
# possible to specify the boundary conditions for each axis" (a constructor dict naming only some axes leaves the
# others reflecting).  For set_boundary_conditions on an existing object the docstring only says "Sets the boundary
# conditions"; what an axis NOT named in a later call becomes (default or previous value) is not documented, so for
# such an axis either is accepted and the setting reported by get_boundary_conditions() is taken as the truth that
# every other observer must follow.  A named axis must be reported as given.

VAL = {0: "reflecting", 1: "periodical"}
H_VARIANT = 1          # 8 um3 cells in a (nm, ms, mol) grid: D/edge^2 = 0.25 /s
ALPHA27 = [[a, b, c] for a in (-1, 0, 1) for b in (-1, 0, 1) for c in (-1, 0, 1)]   # per axis: absent / R / P
FULL8 = [[a, b, c] for a in (0, 1) for b in (0, 1) for c in (0, 1)]
OBSERVERS = ("are_neighbors", "get_neighbors", "grid_to_graph", "engine-euler-grid", "kinetics.compute_dstatedt")


def _call_dict(call):
    return {a: VAL[v] for a, v in zip("xyz", call) if v >= 0}


def _ctor_grid(case):
    init = case["init"]
    if case.get("ctor") == "minimal":
        bc = {a: "periodical" for a, v in zip("xyz", init) if v}       # unnamed axes: documented default
    else:
        bc = {a: VAL[v] for a, v in zip("xyz", init)}
    v = VARIANTS[H_VARIANT]
    return RDGridSpace(w=case["w"], h=case["h"], d=case["d"], cell_env=0, cell_vol=v["vol"],
                       boundary_conditions=bc, units_system=uq.mk_sys(v["sys"]))


def _prime_system(g):
    n = g.size()
    net = RDNetwork(species=[Species("A", D=D1)], reactions=[], environments=["e0"])
    return RDSystem(net, g, state=[float(p) for p in primes(n)])


def _observe(g, do_pykin, out, do_engine=True):
    """What every geometry observer says about grid object g (exceptions recorded per observer)."""
    n = g.size()
    obs = {}

    def grab(name, f):
        try:
            obs[name] = f()
        except Exception as ex:
            obs[name] = ("exception", _exc(ex))

    out.ops += n * (n - 1) + n + 2
    grab("are_neighbors", lambda: [[(bool(g.are_neighbors(a, b)) if a != b else None) for b in range(n)]
                                   for a in range(n)])
    grab("get_neighbors", lambda: [sorted(set(int(j) for j in g.get_neighbors(c)) - {c}) for c in range(n)])
    grab("grid_to_graph", lambda: sorted((min(e.i, e.j), max(e.i, e.j)) for e in grid_to_graph(g).edges if e.i != e.j))

    def engine():
        sc = RDScript(_prime_system(g), t_sample=[0], time_step=DT, sampling_policy="on_iteration", t_max=DT / 2,
                      rng_seed=1)
        tr, nit = eng.simulate("euler", sc, max_iter=10)
        data = [float(x) for x in tr.data.convert(UnitsSystem()).value]
        if nit != 1 or len(data) != 2 * n:
            raise RuntimeError("%d iterations, %d values" % (nit, len(data)))
        return [data[n + j] - data[j] for j in range(n)]
    if do_engine:
        grab("engine-euler-grid", engine)
    if do_pykin:
        out.ops += n
        grab("kinetics.compute_dstatedt",
             lambda: [float(x) for x in kinetics.compute_dstatedt(_prime_system(g)).convert(UnitsSystem()).value])
    return obs


def _reference_obs(w, h, d, per, do_pykin):
    n = w * h * d
    x = [float(p) for p in primes(n)]
    ref = {
        "are_neighbors": [[(L.related(w, h, d, per, a, b) if a != b else None) for b in range(n)] for a in range(n)],
        "get_neighbors": [L.neighbours(w, h, d, per, c) for c in range(n)],
        "grid_to_graph": L.edges_distinct(w, h, d, per),
    }
    der = [D1 / 4.0 * sum(x[j] - x[i] for j in L.face_list(w, h, d, per, i)) for i in range(n)]
    ref["engine-euler-grid"] = [DT * v for v in der]
    if do_pykin:
        ref["kinetics.compute_dstatedt"] = der
    return ref


_FRESH = {}


def _fresh_obs(w, h, d, per, do_pykin):
    key = (w, h, d, tuple(per), bool(do_pykin))
    if key not in _FRESH:
        g = _ctor_grid({"w": w, "h": h, "d": d, "init": [int(p) for p in per], "ctor": "full"})
        _FRESH[key] = _observe(g, do_pykin, Out())
    return _FRESH[key]


def _same(name, a, b, n):
    if isinstance(a, tuple) or isinstance(b, tuple):
        return a == b
    if name in ("engine-euler-grid", "kinetics.compute_dstatedt"):
        scale = D1 / 4.0 * 6 * float(primes(n)[-1]) * (DT if name == "engine-euler-grid" else 1.0)
        return len(a) == len(b) and all(abs(u - v) <= REL_FLUX * scale for u, v in zip(a, b))
    return a == b


def _first_diff(name, a, b):
    if isinstance(a, tuple):
        return "raised %s" % a[1]
    if isinstance(b, tuple):
        return "the comparison side raised %s" % b[1]
    if name == "are_neighbors":
        for i, (ra, rb) in enumerate(zip(a, b)):
            for j, (u, v) in enumerate(zip(ra, rb)):
                if u != v:
                    return "are_neighbors(%d,%d) = %r, expected %r" % (i, j, u, v)
    if name == "get_neighbors":
        for i, (u, v) in enumerate(zip(a, b)):
            if u != v:
                return "set(get_neighbors(%d)) - {self} = %r, expected %r" % (i, u, v)
    if name == "grid_to_graph":
        return "edges between distinct cells %r, expected %r" % (a[:12], b[:12])
    for i, (u, v) in enumerate(zip(a, b)):
        if u != v:
            return "cell %d: %.17g, expected %.17g (state = first primes, pure diffusion)" % (i, u, v)
    return "lengths %d / %d" % (len(a), len(b))


def _judge(tag, g, w, h, d, allowed, do_pykin, out, where, do_engine=True):
    """g must report a setting within `allowed` (list of 3 sets) and every observer must follow the reported one."""
    n = w * h * d
    out.ops += 1
    out.evals += 1
    try:
        bc = g.get_boundary_conditions()
    except Exception as ex:
        out.add("%s:%s:get_boundary_conditions:unexpected-exception" % (P, tag), "%s (%s)" % (_exc(ex), where))
        return None
    if not (isinstance(bc, dict) and sorted(bc) == ["x", "y", "z"] and all(v in VAL.values() for v in bc.values())):
        out.add("%s:%s:get_boundary_conditions:malformed" % (P, tag), "get_boundary_conditions() = %r (%s)" % (bc, where))
        return None
    for k, a in enumerate("xyz"):
        if bc[a] not in allowed[k]:
            out.add("%s:%s:get_boundary_conditions:axis-not-as-set" % (P, tag),
                    "get_boundary_conditions() = %r, axis %s should be %s (%s)" % (bc, a, " or ".join(sorted(allowed[k])), where))
            return None
    per = tuple(bc[a] == "periodical" for a in "xyz")
    obs = _observe(g, do_pykin, out, do_engine)
    ref = _reference_obs(w, h, d, per, do_pykin)
    fresh = _fresh_obs(w, h, d, per, do_pykin)
    for name in OBSERVERS:
        if name not in obs:
            continue
        out.evals += 2
        if isinstance(obs[name], tuple):
            out.add("%s:%s:%s:unexpected-exception" % (P, tag, name),
                    "%s; object reports %r (%s)" % (obs[name][1], bc, where))
            continue
        if not _same(name, obs[name], ref[name], n):
            out.add("%s:%s:%s:differs-from-reference" % (P, tag, name),
                    "%s; object reports %r (%s)" % (_first_diff(name, obs[name], ref[name]), bc, where))
        if not _same(name, obs[name], fresh[name], n):
            out.add("%s:%s:%s:differs-from-fresh-grid" % (P, tag, name),
                    "%s on a grid built directly with %r (%s)" % (_first_diff(name, obs[name], fresh[name]), bc, where))
    return per


def _history(case, out):
    w, h, d = case["w"], case["h"], case["d"]
    g = _ctor_grid(case)
    allowed = [{VAL[v]} for v in case["init"]]
    every = case.get("observe") == "every"     # observing is an operation of the history too (it may fill caches)
    done = []
    for call in case["calls"]:
        if every:
            where = "%dx%dx%d built with %s%s, all observers queried after every step" % (
                w, h, d, _call_dict(case["init"]), "".join(", set_boundary_conditions(%r)" % (_call_dict(c),) for c in done))
            # (the engine runs on the deep copy RDScript makes, it cannot touch g: only judged at the end)
            per = _judge("history", g, w, h, d, allowed, bool(case.get("pykin")), out, where, do_engine=False)
            if per is not None:
                allowed = [{VAL[int(p)]} for p in per]      # the reported setting is now the known previous value
        out.ops += 1
        g.set_boundary_conditions(_call_dict(call))
        done.append(call)
        allowed = [({VAL[v]} if v >= 0 else (allowed[k] | {"reflecting"})) for k, v in enumerate(call)]
    where = "%dx%dx%d built with %s, then set_boundary_conditions%s%s" % (
        w, h, d, _call_dict(case["init"]), "".join("(%r)" % (_call_dict(c),) for c in case["calls"]),
        ", all observers queried after every step" if every else "")
    per = _judge("history", g, w, h, d, allowed, bool(case.get("pykin")), out, where)
    if any(v < 0 for c in case["calls"] for v in c):
        out.count("histories_with_partial_dict")
    nt = per is not None and [int(p) for p in per] != list(case["init"])
    if nt:
        out.count("histories_final_setting_differs_from_initial")
    return nt


def _copy(case, out):
    w, h, d = case["w"], case["h"], case["d"]
    g = _ctor_grid(dict(case, ctor="minimal"))
    out.ops += 2
    a_init = [{VAL[v]} for v in case["init"]]
    if case.get("observe") == "every":
        _judge("copy:before-copy", g, w, h, d, a_init, False, out,
               "%dx%dx%d built with %s" % (w, h, d, {a: "periodical" for a, v in zip("xyz", case["init"]) if v}))
    c = g.copy()
    if type(c) is not RDGridSpace or c is g:
        out.add(P + ":copy:result", "copy() returned %r" % (c,))
        return True
    new = {a: VAL[v] for a, v in zip("xyz", case["new"])}
    a_new = [{VAL[v]} for v in case["new"]]
    where = "%dx%dx%d built with %s, copy(), then %s.set_boundary_conditions(%r)" % (
        w, h, d, {a: "periodical" for a, v in zip("xyz", case["init"]) if v},
        "copy" if case["mode"] == "change-copy" else "original", new)
    if case["mode"] == "change-copy":
        c.set_boundary_conditions(new)
        _judge("copy:changed-copy", c, w, h, d, a_new, False, out, where)
        _judge("copy:untouched-original", g, w, h, d, a_init, False, out, where)
    else:
        g.set_boundary_conditions(new)
        _judge("copy:changed-original", g, w, h, d, a_new, False, out, where)
        _judge("copy:untouched-copy", c, w, h, d, a_init, False, out, where)
    return case["init"] != case["new"]



# ---- coordinate carriers: numpy arrays / numpy scalars of narrow integer types ----------------------
#
# The statement does not promise that numpy carriers are accepted: a carrier rejected with an exception is counted,
# not reported.  An ACCEPTED position must designate the cell z*w*h + y*w + x in every position-taking function.

CARRIERS = ("ndarray", "tuple-of-numpy-scalars", "list-of-numpy-scalars", "object-with-numpy-scalars")
DTYPES = ("int8", "uint8", "int16", "int32", "int64")


def _carry(carrier, dtype, x, y, z):
    a = np.array([x, y, z], dtype=np.dtype(dtype))
    if carrier == "ndarray":
        return a
    if carrier == "tuple-of-numpy-scalars":
        return (a[0], a[1], a[2])
    if carrier == "list-of-numpy-scalars":
        return [a[0], a[1], a[2]]
    if carrier == "object-with-numpy-scalars":
        return Coord(a[0], a[1], a[2])
    raise ValueError(carrier)


def _carriers(case, out):
    w, h, d = case["w"], case["h"], case["d"]
    per = _per(case)
    n = w * h * d
    carrier, dtype = case["carrier"], case["dtype"]
    info = np.iinfo(np.dtype(dtype))
    env = env_map(n)
    g = make_grid(case)
    tag = "%s:%s" % (carrier, dtype)
    where = "%dx%dx%d periodic=%s" % (w, h, d, list(per))

    def mk(c):
        x, y, z = L.coords_fast(w, h, d, c)
        return _carry(carrier, dtype, x, y, z)

    def call(api, f, *a):
        out.ops += 1
        try:
            return True, f(*a)
        except Exception:
            out.count("numpy_carrier_rejected_by_" + api)
            return False, None

    import warnings
    with warnings.catch_warnings():
        warnings.simplefilter("ignore")          # numpy overflow RuntimeWarnings of the code under test
        for c in range(n):
            x, y, z = L.coords_fast(w, h, d, c)
            if max(x, y, z) > info.max:
                out.count("cells_skipped_coordinate_does_not_fit_dtype")
                continue
            shown = "%s(%d,%d,%d)" % (tag, x, y, z)
            ok, i = call("get_cell_index", g.get_cell_index, mk(c))
            if ok:
                out.evals += 1
                try:
                    good = int(i) == c
                except Exception:
                    good = False
                if not good:
                    out.add("%s:carriers:get_cell_index:wrong-index:%s" % (P, tag),
                            "get_cell_index(%s) = %r, index = z*w*h + y*w + x = %d (%s)" % (shown, i, c, where))
                ok2, cc = call("get_cell_coordinates", lambda: g.get_cell_coordinates(g.get_cell_index(mk(c))))
                if ok2:
                    out.evals += 1
                    if tuple(cc) != (x, y, z):
                        out.add("%s:carriers:round-trip:%s" % (P, tag),
                                "get_cell_coordinates(get_cell_index(%s)) = %r (%s)" % (shown, cc, where))
            ok, e = call("get_cell_env", g.get_cell_env, mk(c))
            if ok:
                out.evals += 1
                if int(e) != env[c]:
                    out.add("%s:carriers:get_cell_env:wrong-cell:%s" % (P, tag),
                            "get_cell_env(%s) = %r, cell_env[%d] = %d (%s)" % (shown, e, c, env[c], where))
            ref = L.neighbours(w, h, d, per, c)
            ok, nb = call("get_neighbors", g.get_neighbors, mk(c))
            if ok:
                out.evals += 1
                try:
                    got = sorted(set(int(j) for j in nb) - {c})
                except Exception:
                    got = None
                if got != ref:
                    out.add("%s:carriers:get_neighbors:wrong-cell:%s" % (P, tag),
                            "set(get_neighbors(%s)) - {self} = %r, reference %r (%s)" % (shown, got, ref, where))
            others = list(ref) + [q for q in ((c + 7) % n, n - 1 - c, (c + w * h + 1) % n) if q != c and q not in ref]
            for q in others:
                exp = L.related(w, h, d, per, c, q)
                for (pa, pb, form) in ((mk(c), mk(q), "both"), (mk(c), q, "first"), (q, mk(c), "second")):
                    ok, r = call("are_neighbors", g.are_neighbors, pa, pb)
                    if ok:
                        out.evals += 1
                        if bool(r) != exp:
                            out.add("%s:carriers:are_neighbors:wrong-cell:%s" % (P, tag),
                                    "are_neighbors with cell %d=%s and cell %d (%s argument(s) carried) = %r, reference %r (%s)"
                                    % (c, shown, q, form, r, exp, where))
    return n > int(info.max) or dtype in ("int32", "int64")


SUBS = {"geom": _geom, "pykin": _pykin, "engine": _engine, "graph": _graph, "traj": _traj, "pygraph": _pygraph,
        "history": _history, "copy": _copy, "carriers": _carriers, "trajsamp": _trajsamp, "kinpairs": _kinpairs}


def _run_case(case):
    out = Out()
    nt = False
    try:
        nt = bool(SUBS[case["sub"]](case, out))
    except Exception as e:
        import traceback
        tb = traceback.extract_tb(e.__traceback__)
        last = tb[-1] if tb else None
        out.add("%s:%s:unexpected-exception" % (P, case["sub"]),
                "%s (at %s:%s)" % (_exc(e), getattr(last, "filename", "?").split("/")[-1], getattr(last, "lineno", "?")))
    return out, nt


def check_case(case):
    return _run_case(case)[0].result()


# ---- enumeration ---------------------------------------------------------------------------------

def _grids(N):
    return [{"w": w, "h": h, "d": d, "per": [int(p) for p in per]} for (w, h, d, per) in L.all_grids(N)]


def _spaces(tier):
    N = 4 if tier == "thorough" else 3
    cap = 12 if tier == "thorough" else 8
    grids = _grids(N)
    sp = []
    # slowest first (load balance)
    pyk = [dict(g, sub="pykin", c=c) for g in grids if g["w"] * g["h"] * g["d"] <= cap
           for c in range(g["w"] * g["h"] * g["d"])]
    sp.append(("pykin: every source cell of every grid of {1..%d}^3 x 8 boundary settings with <= %d cells: one-hot "
               "state, pure diffusion, kinetics.compute_dstatedt" % (N, cap), pyk, 1))
    pyg = [dict(g, sub="pygraph", variant=(1 if (g["w"] + g["h"] + g["d"]) % 2 else 0)) for g in grids
           if g["w"] * g["h"] * g["d"] <= cap
           and all((not p) or dim >= 3 for p, dim in zip(g["per"], (g["w"], g["h"], g["d"])))]
    sp.append(("pygraph: grids with <= %d cells whose periodic axes all have length >= 3: compute_dstatedt on grid vs "
               "on grid_to_graph(grid), heterogeneous network" % cap, pyg, 1))
    sp.append(("kinpairs: all grids {1..%d}^3 x 8 with <= %d cells, every ordered pair of distinct cells as indices and as tuples: "
               "kinetics.compute_diffusion_rates accepts the pair iff the cells are neighbours" % (N, cap),
               [dict(g, sub="kinpairs") for g in grids if g["w"] * g["h"] * g["d"] <= cap], 4))
    sp.append(("geom: all grids {1..%d}^3 x 8: bijection, 4 position forms, outside positions, all ordered pairs, "
               "neighbour query" % N, [dict(g, sub="geom") for g in grids], 4))
    sp.append(("engine: every source cell of every grid {1..%d}^3 x 8: one native Euler step from a one-hot state" % N,
               [dict(g, sub="engine", c=c) for g in grids for c in range(g["w"] * g["h"] * g["d"])], 40))
    # beyond the small scope: every axis >= 3 and pairwise different lengths somewhere (interior cells exist; a stride
    # mix-up between w, h and d cannot cancel); all 8 boundary settings, every source cell
    bigs = [(3, 3, 4), (3, 4, 3), (4, 3, 3), (3, 4, 5)] + ([(5, 4, 3), (4, 5, 3), (5, 3, 4)] if tier == "thorough" else [])
    bg = [{"w": w, "h": h, "d": d, "per": [int(b) for b in per], "sub": "engine", "c": c}
          for (w, h, d) in bigs for per in itertools.product((0, 1), repeat=3) for c in range(w * h * d)]
    sp.append(("engine-big: every source cell of the grids %s x 8 boundary settings: one native Euler step from a one-hot state"
               % ", ".join("%dx%dx%d" % t for t in bigs), bg, 40))
    bt = [{"w": w, "h": h, "d": d, "per": [int(b) for b in per], "sub": "traj", "variant": v, "chem": v}
          for (w, h, d) in bigs[:4] for per in ((0, 0, 0), (1, 1, 1), (1, 0, 1)) for v in (0, 1)]
    sp.append(("traj-big: grids %s x 3 boundary settings x 2 variants: 3 Euler steps grid vs graph" % ", ".join("%dx%dx%d" % t for t in bigs[:4]), bt, 2))
    sgrids = [(1, 1, 1), (3, 1, 1), (3, 2, 1), (2, 2, 2), (1, 3, 4)]
    ts = [{"w": w, "h": h, "d": d, "per": [int(b) for b in per], "sub": "trajsamp", "variant": v, "cfg": c}
          for (w, h, d) in sgrids for per in ((0, 0, 0), (1, 0, 0), (1, 1, 1)) for v in (0, 1) for c in range(len(SAMPLINGS))]
    sp.append(("traj-sampling: grids %s x 3 boundary settings x 2 variants x %d sampling configurations (3 policies, decimal "
               "and dyadic steps): recorded times and states of the Euler run, grid vs graph"
               % (", ".join("%dx%dx%d" % t for t in sgrids), len(SAMPLINGS)), ts, 4))
    sp.append(("graph: all grids {1..%d}^3 x 8 x %d volume/unit variants: grid_to_graph structure" % (N, len(VARIANTS)),
               [dict(g, sub="graph", variant=v) for g in grids for v in range(len(VARIANTS))], 16))
    sp.append(("traj: all grids {1..%d}^3 x 8 x 2 variants (plain; other units + chemostats): 3 Euler steps grid vs graph" % N,
               [dict(g, sub="traj", variant=v, chem=v) for g in grids for v in (0, 1)], 8))

    # numpy carriers of narrow integer types on grids with more cells than the type can count
    cgrids = [(4, 5, 7), (6, 7, 8), (8, 8, 8)]
    cpers = [(0, 0, 0), (1, 0, 1)] if tier != "thorough" else [tuple(b) for b in itertools.product((0, 1), repeat=3)]
    cc = [{"w": w, "h": h, "d": d, "per": [int(b) for b in per], "sub": "carriers", "carrier": ca, "dtype": dt}
          for (w, h, d) in cgrids for per in cpers for ca in CARRIERS for dt in DTYPES]
    sp.insert(0, ("geom-carriers: grids 4x5x7, 6x7x8, 8x8x8 x %d boundary settings x 4 numpy coordinate carriers x 5 integer "
                  "dtypes, every cell: an accepted position designates the cell z*w*h + y*w + x in get_cell_index / "
                  "get_cell_coordinates / get_cell_env / get_neighbors / are_neighbors" % len(cpers), cc, 1))

    # histories on one object (E2)
    def shp(t):
        return {"w": t[0], "h": t[1], "d": t[2]}
    small = [(1, 2, 3), (4, 2, 1)]               # axes of length 1, 2, 3 and 4, 2, 1; <= 8 cells
    big = [(2, 3, 4), (3, 1, 4)]
    shapes = small + (big if tier == "thorough" else [])
    MODES = ("end", "every")
    h1 = [dict(shp(t), sub="history", ctor="full", init=i, calls=[c], observe=m,
               pykin=(t[0] * t[1] * t[2] <= 8 and (tier == "thorough" or (t == small[0] and min(c) >= 0))))
          for t in shapes for i in FULL8 for c in ALPHA27 for m in MODES]
    sp.insert(0, ("history1: %d shapes x 8 initial settings x 1 set_boundary_conditions call out of 27 (each axis absent / "
                  "reflecting / periodical) x {observers queried at the end only, after every step}: every observer "
                  "follows the reported setting" % len(shapes), h1, 6))
    if tier == "thorough":
        h2 = [dict(shp(t), sub="history", ctor="full", init=i, calls=[c1, c2], observe=m,
                   pykin=(t == small[0] and min(c1) >= 0 and min(c2) >= 0))
              for t in small for i in FULL8 for c1 in ALPHA27 for c2 in ALPHA27
              for m in (MODES if t == small[0] else ("every",))]
        h2 += [dict(shp(t), sub="history", ctor="full", init=i, calls=[c1, c2], observe=m, pykin=False)
               for t in big for i in FULL8 for c1 in FULL8 for c2 in FULL8 for m in MODES]
        name2 = ("history2: 1x2x3: 8 initial settings x 27 x 27 calls x 2 observation modes; 4x2x1: 8 x 27 x 27, observed "
                 "after every step; 2x3x4 and 3x1x4: 8 x 8 x 8 full-dict calls x 2 modes")
    else:
        h2 = [dict(shp(t), sub="history", ctor="full", init=i, calls=[c1, c2], observe=m, pykin=False)
              for t in small[:1] for i in FULL8 for c1 in FULL8 for c2 in FULL8 for m in MODES]
        name2 = "history2: shape 1x2x3 x 8 initial settings x 8 x 8 full-dict calls x 2 observation modes"
    sp.insert(1, (name2 + ": every observer follows the reported setting", h2, 12))
    cp = [dict(shp(t), sub="copy", init=i, new=j, mode=m, observe=o) for t in shapes for i in FULL8 for j in FULL8
          for m in ("change-copy", "change-original") for o in MODES]
    sp.append(("copy: %d shapes x 8 x 8 settings x {change the copy, change the original} x {original observed before "
               "copy(), not}: the other object is unaffected, both consistent" % len(shapes), cp, 16))
    return sp


_SPACES = None
_LIB = None


def _work(job):
    si_, lo, hi = job
    name, cases, _ = _SPACES[si_]
    acc = core.Acc()
    for case in cases[lo:hi]:
        out, nt = _run_case(case)
        acc.add(states=1, transitions=out.ops, traces=1, evaluations=out.evals, nontrivial=1 if nt else 0)
        for k, v in out.counts.items():
            acc.count(k, v)
        for key, what in out.result():
            acc.violation(key, what, case)
        if lo == 0 and acc.states == 1:
            acc.sample(case)
    return acc.pack()


def run(ctx):
    global _SPACES
    L.selftest()
    global _LIB
    import ctypes
    _LIB = ctypes.CDLL(eng.so_path())   # build + load once in the parent; forked workers inherit the mapping
    _SPACES = _spaces(ctx.tier)
    jobs = []
    for i, (name, cases, chunk) in enumerate(_SPACES):
        for lo, hi in pool.chunks(len(cases), chunk):
            jobs.append((i, lo, hi))
    res = pool.pmap(_work, jobs, timeout=300)
    per = {}
    for job, r in zip(jobs, res):
        if isinstance(r, pool.Crash):
            i, lo, hi = job
            sub = _SPACES[i][1][lo]["sub"]
            site = "engine" if sub in ("engine", "traj", "trajsamp", "history", "copy") else "checker"
            ctx.violation("%s:%s:%s:worker-%s" % (P, site, sub, r.kind), r.detail[-1500:],
                          {"job": list(job), "cases": _SPACES[i][1][lo:hi][:3]})
            continue
        core.merge(ctx, r)
        per[job[0]] = per.get(job[0], 0) + r["n"][0]
    for i, (name, cases, chunk) in enumerate(_SPACES):
        ctx.subspace(name, len(cases), per.get(i, 0), exhaustive=(per.get(i, 0) == len(cases)))
    ctx.rule("every case of each listed sub-space is enumerated in fixed order on the real code; cases are distinct "
             "tuples (grid[, source cell | variant]); non-trivial = geom/traj/pygraph: grid of >= 2 cells; "
             "pykin/engine: the source cell has >= 1 reference neighbour; graph: >= 1 face between distinct cells; "
             "history: the final setting differs from the initial one; copy: the new setting differs from the initial one; "
             "carriers: the grid has more cells than the dtype can count (or the dtype is int32/int64)")
    ctx.assume("reference layout mc/ref/layout.py (self-tested in this run against an independent definition of the "
               "relation and closed-form face counts); exact SI scales of mc/ref/si.py; self pairs (c,c) of a graph "
               "and duplicates / self entries in get_neighbors lists are not constrained (the statement speaks of the "
               "relation between distinct cells); an axis not named in a later set_boundary_conditions call may become "
               "either its previous value or the default (undocumented): the reported setting is taken as the truth")


def replay(case):
    return check_case(case)
