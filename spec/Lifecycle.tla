------------------------------ MODULE Lifecycle ------------------------------
(* Lifecycle of ONE engine object driving a fixed-step script that needs K iterations, with sampling
   disabled (records come from explicit sample() calls only).  Written from the statements of C09/C10:
     - set-up starts from a clean slate (no iteration done, no record, not complete);
     - a driver call performs iterations until the simulation is complete and returns "not complete";
       a completed simulation stays completed and further iterations change nothing;
     - sample() records the current state; a step that already holds a record may or may not take another
       one (the statement only says records never go back in time), a step without one must;
     - finalize is accepted in every state, any number of times; after it only set-up or finalize.
   The variable `n` bounds the depth so that TLC's state graph is a finite DAG whose every path is a
   lifecycle-respecting history; every path is replayed against the implementation (mc/tlaconf.py). *)
EXTENDS Naturals

CONSTANTS K, MaxOps

VARIABLES st,     \* "unset" | "live" | "released"
          k,      \* iterations performed since the last set-up
          done,   \* completion flag of the current set-up
          nrec,   \* number of records held
          rec,    \* TRUE iff the current step already holds a record
          ret,    \* what the last driver call returned: "none" | "true" | "false"
          n       \* operations so far

vars == <<st, k, done, nrec, rec, ret, n>>

Init == st = "unset" /\ k = 0 /\ done = FALSE /\ nrec = 0 /\ rec = FALSE /\ ret = "none" /\ n = 0

Bool2Str(b) == IF b THEN "true" ELSE "false"

Setup == /\ n < MaxOps
         /\ st' = "live" /\ k' = 0 /\ done' = FALSE /\ nrec' = 0 /\ rec' = FALSE /\ ret' = "none" /\ n' = n + 1

\* j iterations, stopping at completion; completion happens with the K-th iteration
Steps(j) == IF done THEN 0 ELSE IF k + j >= K THEN K - k ELSE j

Drive(j) == /\ n < MaxOps /\ st = "live"
            /\ LET s == Steps(j) IN
               /\ k' = k + s
               /\ done' = (done \/ k + s >= K)
               /\ rec' = IF s > 0 THEN FALSE ELSE rec
               /\ ret' = Bool2Str(~(done \/ k + s >= K))
            /\ UNCHANGED <<st, nrec>> /\ n' = n + 1

Iterate   == Drive(1)
IterateN2 == Drive(2)
IterateN0 == Drive(0)

Sample == /\ n < MaxOps /\ st = "live"
          /\ \/ (nrec' = nrec + 1 /\ rec' = TRUE)
             \/ (rec /\ nrec' = nrec /\ rec' = rec)
          /\ UNCHANGED <<st, k, done, ret>> /\ n' = n + 1

Finalize == /\ n < MaxOps /\ st \in {"live", "released"}
            /\ st' = "released" /\ UNCHANGED <<k, done, nrec, rec, ret>> /\ n' = n + 1

Next == Setup \/ Iterate \/ IterateN2 \/ IterateN0 \/ Sample \/ Finalize

Spec == Init /\ [][Next]_vars

\* properties of the model itself (checked by TLC): completion is sticky and exact
TypeOK == st \in {"unset", "live", "released"} /\ k \in 0..K /\ nrec \in 0..MaxOps /\ n \in 0..MaxOps
CompleteIffK == (st = "live") => (done <=> k = K)
RetMatches == (st = "live" /\ ret # "none") => (ret = Bool2Str(~done))
=============================================================================
