CONSTANTS
  K = 3
  MaxOps = 5
INIT Init
NEXT Next
INVARIANTS TypeOK CompleteIffK RetMatches
